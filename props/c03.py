"""C03 Grounding result is independent of the order sibling goals are explored (E1 run-vs-run).
Also hosts the engine configurations used by C04."""
import random
from fractions import Fraction

from problog import get_evaluatable
from problog.engine_stack import StackBasedEngine, MessageFIFO, MessageAnyOrder
from problog.evaluator import SemiringProbability
from problog.program import PrologString

from vlib import gen, diffcheck
from vlib.common import Run, Stats, pmap

FUNCS = ["problog.engine_stack.StackBasedEngine.execute (main loop, closeCycle)",
         "problog.engine_stack.MessageFIFO.{__iadd__,pop,cycle_exhausted}",
         "problog.eval_nodes.EvalDefine/EvalOr/EvalAnd/EvalNot (buffering, cycle parent/children/siblings)",
         "evaluation pipeline as in C01"]

PERMUTED = [0]


class PermFIFO(MessageFIFO):
    """The real FIFO message stack; every batch of sibling 'e' (evaluation) messages pushed in
    one step is permuted by the schedule oracle."""

    def __init__(self, engine, rng):
        MessageFIFO.__init__(self, engine)
        self.rng = rng

    def __iadd__(self, messages):
        messages = list(messages)
        if len(messages) > 1 and all(m[0] == "e" for m in messages):
            self.rng.shuffle(messages)
            PERMUTED[0] += 1
        for m in messages:
            self.append(m)
        return self


class PermEngine(StackBasedEngine):
    seed = None

    def __init__(self, **kw):
        StackBasedEngine.__init__(self, **kw)
        self.rng = random.Random(self.seed)

    def init_message_stack(self):
        return PermFIFO(self, self.rng)


class RandomOrderQueue(MessageAnyOrder):
    """Transcribed from docs/source/engine.rst (seeded RNG instead of the global one)."""

    def __init__(self, engine, rng):
        MessageAnyOrder.__init__(self, engine)
        self.messages_rc = []
        self.messages_e = []
        self.rng = rng

    def append(self, message):
        if message[0] == "e":
            self.messages_e.append(message)
        else:
            self.messages_rc.append(message)

    def pop(self):
        if self.messages_rc:
            return self.messages_rc.pop(-1)
        i = self.rng.randint(0, len(self.messages_e) - 1)
        return self.messages_e.pop(i)

    def __nonzero__(self):
        return bool(self.messages_e) or bool(self.messages_rc)

    def __bool__(self):
        return bool(self.messages_e) or bool(self.messages_rc)

    def __len__(self):
        return len(self.messages_e) + len(self.messages_rc)

    def __iter__(self):
        return iter(self.messages_e + self.messages_rc)


class RandomOrderEngine(StackBasedEngine):
    seed = None

    def __init__(self, **kw):
        kw["unbuffered"] = True
        StackBasedEngine.__init__(self, **kw)
        self.rng = random.Random(self.seed)

    def init_message_stack(self):
        return RandomOrderQueue(self, self.rng)


def make_engine(desc):
    kind = desc.get("engine", "default")
    if kind == "default":
        return StackBasedEngine()
    if kind == "perm":
        cls = type("PermEngineS", (PermEngine,), {"seed": desc.get("seed")})
        return cls()
    if kind == "unbuffered":
        return StackBasedEngine(unbuffered=True)
    if kind == "rc_first":
        return StackBasedEngine(unbuffered=True, rc_first=True)
    if kind == "random":
        cls = type("RandomOrderEngineS", (RandomOrderEngine,), {"seed": desc.get("seed")})
        return cls()
    raise ValueError(kind)


def make_cfg(desc):
    def cfg(text, sr):
        eng = make_engine(desc)
        f = get_evaluatable("ddnnf").create_from(PrologString(text), engine=eng)
        return f.evaluate(semiring=sr if sr is not None else SemiringProbability())
    return cfg


def work(item, errors="type"):
    name, prog, descs = item
    text = gen.program_text(prog)
    groups = gen.ad_groups_of(prog)
    st = Stats()
    PERMUTED[0] = 0
    for d in descs:
        diffcheck.diff_check(text, make_cfg({}), make_cfg(d), {}, d, groups=groups, name=name, st=st,
                             key_prefix=(d.get("engine", "") + ":") if d.get("engine") in ("unbuffered", "rc_first", "random") else "",
                             errors=errors)
    st["permuted_batches"] = PERMUTED[0]
    return st


def programs(tier, seed, base):
    progs = [(n, p) for n, p in gen.corpus()]
    n = 40 if tier == "quick" else 500
    for i in range(n):
        progs.append(("gen/%d/%d" % (seed, i), gen.generate(seed, base + i, max_choices=7)))
    for i in range(15 if tier == "quick" else 200):
        progs.append(("graph/%d/%d" % (seed, i), gen.graph_program(random.Random("c03/%s/%s" % (seed, i)))))
    # explicit disjunctions in clause bodies on a positive cycle (EvalOr buffering / createCycle), written as raw
    # text: the AST of the reference generators has no ';' - none is needed for a run-vs-run identity
    from vlib.gen import A
    for i in range(20 if tier == "quick" else 300):
        r = random.Random("c03or/%s/%s" % (seed, i))
        prog = [("ad", [("p1", A("a"))], []), ("ad", [("p2", A("b"))], []), ("ad", [("p3", A("f"))], [])]
        prog.append(("rule", A("e", "1"), [(A("a"), False)]))
        if r.random() < 0.7:
            prog.append(("rule", A("e", "1"), [(A("b"), False)]))
        if r.random() < 0.4:
            prog.append(("rule", A("e", "2"), [(A("b"), False)]))
        d1, d2 = ("e(X)", "q(X)") if r.random() < 0.5 else ("q(X)", "e(X)")
        extra = r.choice(["", "", ", dom(X)", " ; u(X)"])
        prog.append(("raw", "p(X) :- (%s ; %s%s)." % (d1, d2, extra if extra.startswith(" ;") else "")))
        prog.append(("raw", "q(X) :- p(X)%s." % (extra if extra.startswith(",") else "")))
        prog.append(("raw", "q(1) :- f."))
        prog.append(("raw", "dom(1). dom(2). u(2) :- a."))
        qs = ["query(e(1)).", "query(p(1)).", "query(q(1))."]
        r.shuffle(qs)
        for q in qs[: r.randint(2, 3)]:
            prog.append(("raw", q))
        progs.append(("bodyor/%d/%d" % (seed, i), prog))
    return progs


def main(tier, seed):
    run = Run("C03", tier, seed, "translation_validation",
              "default engine vs the same engine whose FIFO permutes every batch of sibling evaluation "
              "messages (seeded schedules); both results are rational functions of the symbolic weights and "
              "z3 decides their identity, so schedules differing in one world are distinguished")
    run.functions = FUNCS
    run.assumptions = ["schedules are seeded samples (bounded), injected through the documented "
                       "init_message_stack extension point; no repo hook",
                       "an instance reported by only one run is accepted iff its value is identically 0"]
    ns = 4 if tier == "quick" else 20
    items = [(name, prog, [{"engine": "perm", "seed": "%s/%s/%d" % (seed, name, k)} for k in range(ns)])
             for name, prog in programs(tier, seed, 21000)]
    run.bounds = {"skeletons": len(items), "schedules_per_skeleton": ns}
    tot = 0
    for st in pmap(work, items, item_timeout=120 if tier == "quick" else 900):
        tot += st.get("permuted_batches", 0)
        run.merge(st)
    run.extra["permuted_batches"] = tot
    return run.finish()


def replay(obj, errors="type"):
    vals = dict((k, Fraction(v)) for k, v in obj["values"].items())
    rep, info = diffcheck.replay_diff(obj["program"], make_cfg(obj["A"]), make_cfg(obj["B"]), vals,
                                      ignore_extra_zero=True, errors=errors)
    return rep

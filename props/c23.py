"""C23 k-best anytime bounds are sound and tight on completion; explain sums to the probability (E3 SAT over cubes)."""
import random
import re
import time
from fractions import Fraction

import z3

import problog.kbest as kb
from problog.engine import DefaultEngine
from problog.kbest import KBestFormula
from problog.program import PrologString

from vlib import gen, refsem, symsem, tv, semcheck
from vlib.common import Run, Stats, pmap, short_hash
from vlib.semcheck import call_site

FUNCS = ["problog.kbest.KBestEvaluator.evaluate (border selection, convergence)", "problog.kbest.Border.update (MaxSAT call, cube "
         "probability, blocking clause)", "problog.cnf_formula.CNF.{to_dimacs partial encoding, from_partial}",
         "problog.tasks.explain (proof list through KBestFormula.evaluate(explain=...))", "problog.maxsat / bundled maxsatz"]


class Recorder(object):
    """wraps Border.update inside the check process: records every cube returned per border"""

    def __init__(self):
        self.borders = []          # (border object, name, query literal, [cubes])
        self._orig_init = kb.Border.__init__
        self._orig_update = kb.Border.update

    def __enter__(self):
        rec = self

        def init(b, cnf, manager, semiring, query, name, smart_constraints=False):
            rec._orig_init(b, cnf, manager, semiring, query, name, smart_constraints)
            b._verif = {"name": name, "query": query, "cubes": []}
            rec.borders.append(b)

        def update(b):
            sol = rec._orig_update(b)
            if sol is not None:
                b._verif["cubes"].append((list(sol), b.improvement))
            return sol
        kb.Border.__init__ = init
        kb.Border.update = update
        return self

    def __exit__(self, *a):
        kb.Border.__init__ = self._orig_init
        kb.Border.update = self._orig_update


def work(item):
    name, prog = item
    st = Stats()
    st["programs"] = 1
    G = refsem.ground(prog)
    if refsem.negative_cycle_atoms(G) or refsem.world_count(G) > 4096:
        st.ob("inconclusive", note="skeleton outside the fragment (negative cycle / too many worlds)")
        return st
    params = sorted(set(pr for g in G.groups for pr, _ in g.heads if pr[:1] == "p"), key=lambda s: int(s[1:]))
    rng = random.Random(name)
    values = {}
    for g in G.groups:
        k = len(g.heads)
        for pr, _ in g.heads:
            if pr[:1] == "p":
                values[pr] = Fraction(rng.randint(1, 9), 10 * k)
    text = symsem.substitute_params(gen.program_text(prog), values)
    pkey = short_hash(text)
    st["samples"].append({"name": name, "program": text})
    # reference probabilities
    ref = semcheck.Ref(prog).build()
    ref.tables()
    exact = dict((gen.atom_str(a), refsem.exact_probability(G, ref.q_tabs[a], values)) for a in ref.instances)
    with Recorder() as rec:
        try:
            kbf = KBestFormula.create_from(PrologString(text), label_all=True)
            results = kbf.evaluate()
        except Exception as e:
            st.ob("refuted", key="raise:" + pkey)
            st.violation("raised:%s@%s" % (type(e).__name__, call_site(e)), "k-best raised %s: %s" % (type(e).__name__, e),
                         {"ast": prog, "program": text, "name": name})
            return st
    sat = tv.Sat(20000)

    def nvar(i):
        return z3.Bool("n%d" % i)
    defs, cons = tv.cnf_clauses(kbf, nvar)
    cnf_f = z3.And(*(defs + cons)) if defs + cons else z3.BoolVal(True)
    lit = lambda l: nvar(l) if l > 0 else z3.Not(nvar(-l))

    def violation(kind, what):
        st.violation("kbest:%s" % kind, what, {"ast": prog, "program": text, "name": name})

    for b in rec.borders:
        info = b._verif
        q = info["query"]
        cubes = [c for c, _ in info["cubes"]]
        okey = "%s:%s:%s" % (pkey, info["name"], q)
        # every cube implies the border's literal, for all assignments of the CNF
        bad = False
        for c in cubes:
            r, m = sat.check(cnf_f, *([lit(l) for l in c] + [z3.Not(lit(q))]))
            if r == "sat":
                bad = True
                violation("cube-does-not-imply-query", "%s border of node %s: partial solution %s has a completion that is a model of the "
                          "program in which the node is %s" % (info["name"], q, c, "false"))
                break
            if r != "unsat":
                bad = None
        st.ob("refuted" if bad else "inconclusive" if bad is None else "proved", key=okey + ":sound")
        # cubes pairwise disjoint
        dis = True
        for i in range(len(cubes)):
            for j in range(i + 1, len(cubes)):
                if not any(-l in cubes[j] for l in cubes[i]):
                    r, m = sat.check(cnf_f, *[lit(l) for l in cubes[i] + cubes[j]])
                    if r == "sat":
                        dis = False
        st.ob("proved" if dis else "refuted", key=okey + ":disjoint")
        if not dis:
            violation("cubes-overlap", "%s border of node %s: two returned partial solutions overlap (their probabilities are added)" % (info["name"], q))
        # on completion the cubes cover the literal
        if b.is_complete():
            r, m = sat.check(cnf_f, lit(q), *[z3.Or(*[z3.Not(lit(l)) for l in c]) if c else z3.BoolVal(False) for c in cubes])
            if r == "sat":
                st.ob("refuted", key=okey + ":complete")
                violation("incomplete-cover", "%s border of node %s reported complete but a model of the node is not covered by the returned solutions" % (info["name"], q))
            else:
                st.ob("proved" if r == "unsat" else "inconclusive", key=okey + ":complete")
    # numbers: lower <= P <= upper, single value = P
    for k, v in results.items():
        p = exact.get(str(k))
        if p is None:
            continue
        okey = "%s:value:%s" % (pkey, k)
        if isinstance(v, tuple):
            lo, hi = v
            ok = lo - 1e-8 <= float(p) <= hi + 1e-8
            what = "interval [%s, %s] does not contain the exact probability %s" % (lo, hi, float(p))
        else:
            ok = abs(v - float(p)) <= 1e-8
            what = "value %s differs from the exact probability %s" % (v, float(p))
        st.ob("proved" if ok else "refuted", key=okey)
        if not ok:
            violation("bounds", "query %s: %s" % (k, what))
    # explain: proofs' probabilities sum to the exact probability
    explanation = []
    try:
        db = DefaultEngine().prepare(PrologString(text))
        res2 = KBestFormula.create_from(db, label_all=True).evaluate(explain=explanation)
        sums = {}
        for line in explanation:
            m = re.match(r"^(.*?) :- .*%% P=([0-9.eE+-]+)$".replace("%%", "%"), line)
            if m:
                sums[m.group(1)] = sums.get(m.group(1), 0.0) + float(m.group(2))
        kbf2 = KBestFormula.create_from(db, label_all=True)
        groups = {}
        for n_, i_, l_ in kbf2.labeled():
            groups.setdefault(i_, []).append(str(n_))
        share = {}
        for i_, names in groups.items():
            for nm in names:
                share[nm] = names
        for q, p in exact.items():
            okey = "%s:explain:%s" % (pkey, q)
            if p == 0 or q not in [str(x) for x in res2]:
                continue
            det = any(l.startswith(q + " :- true") for l in explanation)
            if q in sums or det:
                tot = 1.0 if det else sums[q]
                ok = abs(tot - float(p)) <= 1e-6
                st.ob("proved" if ok else "refuted", key=okey)
                if not ok:
                    names = share.get(q, [q])
                    if names and names[0] == q and abs(tot - len(names) * float(p)) <= 1e-6:
                        st.violation("explain:shared-node-proofs-listed-under-first-query-name",
                                     "explain: queries %s share one node; all their proofs are listed under %s (sum %s = %d x %s)" % (
                                         names, q, tot, len(names), float(p)), {"ast": prog, "program": text, "name": name})
                    else:
                        violation("explain-sum", "explain: proofs of %s sum to %s, exact probability %s" % (q, tot, float(p)))
            else:
                names = share.get(q, [q])
                if names and names[0] != q:
                    continue     # listed under the first name of the shared node (known finding, reported there)
                st.ob("refuted", key=okey)
                violation("explain-missing", "explain lists no proof for %s (probability %s)" % (q, float(p)))
    except Exception as e:
        st.ob("refuted", key="explain-raise:" + pkey)
        st.violation("explain-raised:%s@%s" % (type(e).__name__, call_site(e)), "explain raised %s: %s" % (type(e).__name__, e),
                     {"ast": prog, "program": text, "name": name})
    st["solver_time"] += sat.solver_time
    st["queries"] += sat.queries
    return st


def main(tier, seed):
    run = Run("C23", tier, seed, "translation_validation",
              "the real KBestFormula evaluator is run with Border.update wrapped (inside the check process) so that every partial "
              "solution is recorded; z3 proves over ALL assignments of the real CNF that each lower-border cube implies the query and "
              "each upper-border cube its negation, that cubes of one border are pairwise disjoint, and that on completion they cover "
              "the query; hence lower <= P <= upper. Reported numbers are compared with the exact reference probability; explain's "
              "proofs must sum to it.")
    run.functions = FUNCS
    run.assumptions = ["evidence-free skeletons (seeded generator) with concrete rational probabilities (maxsatz needs numbers)",
                       "the CNF itself is the semantic reference for the cubes (its faithfulness is C09's obligation); the numbers are "
                       "compared with vlib/refsem.py exactly, tolerance 1e-8", "Border.update is wrapped, not modified"]
    items = []
    for nm, prog in gen.corpus():
        if not any(s[0] == "evidence" for s in prog):
            items.append((nm, prog))
    n = 60 if tier == "quick" else 1500
    for i in range(n):
        prog = [s for s in gen.generate(seed, 23000 + i, max_choices=6, evidence=False) if s[0] != "evidence"]
        items.append(("gen/%d/%d" % (seed, i), prog))
    run.bounds = {"programs": len(items), "max_choices": 6}
    for st in pmap(work, items, item_timeout=180):
        run.merge(st)
    return run.finish()


def replay(obj):
    prog = semcheck._detuple(obj["ast"])
    st = work((obj.get("name", "replay"), prog))
    return bool(st["violations"])

"""C21 DT-ProbLog and MAP return optimal strategies (z3 over all strategies against the reference semantics)."""
import contextlib
import io
import itertools
import os
import random
import tempfile
import time
from fractions import Fraction

import z3

from problog.program import PrologString
from problog.tasks.dtproblog import dtproblog
from problog.tasks import map as maptask

from vlib import gen, refsem, symsem
from vlib.common import Run, Stats, pmap, short_hash
from vlib.gen import A, P, N
from vlib.semcheck import call_site

FUNCS = ["problog.tasks.dtproblog.{dtproblog,evaluate,search_exhaustive,search_local,num2bits}",
         "problog.tasks.map.main (exhaustive search over query facts)", "evaluation with decision weights (Evaluatable.evaluate(weights=...))"]
EPS = Fraction(1, 10 ** 7)


def dt_program(rng):
    """(reference AST in which decisions are choice atoms, probabilities, decision names, utilities)"""
    nd = rng.randint(1, 4)
    nf = rng.randint(1, 4)
    prog, values = [], {}
    k = 0
    decisions, facts = [], []
    for i in range(nd):
        k += 1
        decisions.append((A("d%d" % i), "p%d" % k))
        prog.append(("ad", [("p%d" % k, A("d%d" % i))], []))
    grid = [Fraction(i, 10) for i in range(1, 10)]
    for i in range(nf):
        k += 1
        facts.append((A("f%d" % i), "p%d" % k))
        prog.append(("ad", [("p%d" % k, A("f%d" % i))], []))
        values["p%d" % k] = rng.choice(grid)
    if rng.random() < 0.3:
        heads = []
        for j, v in enumerate(rng.choice([[Fraction(1, 5), Fraction(1, 2)], [Fraction(3, 10), Fraction(7, 10)]])):
            k += 1
            heads.append(("p%d" % k, A("h%d" % j)))
            facts.append((A("h%d" % j), "p%d" % k))
            values["p%d" % k] = v
        prog.append(("ad", heads, []))
    atoms = [a for a, _ in decisions] + [a for a, _ in facts]
    ders = []
    for j in range(rng.randint(1, 3)):
        u = A("u%d" % j)
        for _ in range(rng.randint(1, 2)):
            body = []
            for _ in range(rng.randint(1, 3)):
                body.append((rng.choice(atoms + ders), rng.random() < 0.3))
            body = [l for l in body if not l[1]] + [l for l in body if l[1]]
            prog.append(("rule", u, body))
        ders.append(u)
    utilities = []
    for u in ders:
        neg = rng.random() < 0.25
        utilities.append((u, neg, rng.choice([-7, -3, -1, 2, 5, 10, 4.5])))
        if rng.random() < 0.2:
            # a utility on the atom AND on its negation
            utilities.append((u, not neg, rng.choice([-2, 1, 3, 6])))
    for d, _ in decisions:
        if rng.random() < 0.6:
            utilities.append((d, False, rng.choice([-4, -2, -1, 1, -0.5])))
    return prog, values, decisions, facts, utilities


def dt_text(prog, values, decisions, utilities):
    dpar = dict((p, "?") for _, p in decisions)
    lines = []
    for s in prog:
        t = gen.stmt_str(s)
        lines.append(t)
    text = "\n".join(lines) + "\n"
    text = symsem.substitute_params(text, values)
    for _, p in decisions:
        text = text.replace("%s::" % p, "?::")
    for a, neg, val in utilities:
        text += "utility(%s%s, %s).\n" % ("\\+" if neg else "", gen.atom_str(a), val)
    return text


def eu_term(G, phi, decisions, facts, values, utilities):
    """expected utility as a z3 real term over the decision Booleans"""
    fvars = [(z3.Bool("x" + p[1:]), p) for _, p in facts]
    groups = []
    for g in G.groups:
        ps = [pr for pr, _ in g.heads]
        if any(pr in values for pr in ps):
            groups.append(g)
    F = z3.BoolVal(False)
    total = z3.RealVal(0)
    doms = [range(len(g.heads) + 1) for g in groups]
    for combo in itertools.product(*doms):
        w = Fraction(1)
        sub = []
        for g, c in zip(groups, combo):
            ps = [values[pr] for pr, _ in g.heads]
            w *= (1 - sum(ps)) if c == 0 else ps[c - 1]
            for i, (pr, b) in enumerate(g.heads):
                sub.append((z3.Bool(b), z3.BoolVal(c == i + 1)))
        if w == 0:
            continue
        for a, neg, val in utilities:
            f = z3.substitute(phi.get(a, F), *sub)
            f = z3.simplify(z3.Not(f) if neg else f)
            total = total + z3.RealVal(str(w * Fraction(str(val)))) * z3.If(f, z3.RealVal(1), z3.RealVal(0))
    return total


def semparse(s):
    from vlib.semcheck import parse_atom
    return parse_atom(s)


def work(item):
    name, seedstr = item
    rng = random.Random(seedstr)
    prog, values, decisions, facts, utilities = dt_program(rng)
    if seedstr.startswith("c21g/"):
        # family with gated decisions: a decision without a utility of its own that only pays off together with another
        # decision (tried later), which pays off by itself
        while len(decisions) < 2:
            k = len(values) + len(decisions) + 1
            d = A("d%d" % len(decisions))
            decisions.append((d, "p%d" % (100 + k)))
            prog.insert(0, ("ad", [("p%d" % (100 + k), d)], []))
        i, j = sorted(rng.sample(range(len(decisions)), 2))
        if rng.random() < 0.3:
            i, j = j, i
        di, dj = decisions[i][0], decisions[j][0]
        utilities = [u for u in utilities if u[0] != di]
        gx, gy = A("gx"), A("gy")
        prog.append(("rule", gx, [(di, False), (dj, False)]))
        prog.append(("rule", gy, [(dj, False), (facts[0][0], False)]))
        utilities.append((gx, False, rng.choice([3, 6, 12])))
        utilities.append((gy, False, rng.choice([4, 8, 20])))
    if seedstr.startswith("c21m/"):
        # family with rewards only: every utility is a strictly positive reward on a positive atom, no decision carries a
        # cost, and a rewarded atom depends NEGATIVELY on a decision (taking every decision is then not optimal)
        utilities = [(u, False, abs(v) if v else 2) for u, _n, v in utilities if u not in [d for d, _ in decisions]]
        seen = set()
        utilities = [x for x in utilities if not (x[0] in seen or seen.add(x[0]))]
        dk = rng.choice(decisions)[0]
        gz = A("gz")
        prog.append(("rule", gz, [(facts[0][0], False), (dk, True)]))
        utilities.append((gz, False, rng.choice([6, 9, 15])))
    st = Stats()
    st["programs"] = 1
    text = dt_text(prog, values, decisions, utilities)
    pkey = short_hash(text)
    st["samples"].append({"name": name, "program": text})
    G = refsem.ground(prog)
    phi = refsem.semantics(G, refsem.Z3Alg)
    EU = eu_term(G, phi, decisions, facts, values, utilities)
    dvar = dict((gen.atom_str(a), z3.Bool("x" + p[1:])) for a, p in decisions)
    s = z3.Solver()
    s.set("timeout", 20000)

    def chk(*conds):
        s.push()
        for c in conds:
            s.add(c)
        t = time.time()
        r = str(s.check())
        st["solver_time"] += time.time() - t
        st["queries"] += 1
        m = s.model() if r == "sat" else None
        s.pop()
        return r, m

    for search in ("exhaustive", "local"):
        okey = "%s:%s" % (search, pkey)
        try:
            with contextlib.redirect_stderr(io.StringIO()):
                choices, score, stats = dtproblog(PrologString(text), search=search)
        except Exception as e:
            st.ob("refuted", key=okey)
            st.violation("%s:raised:%s@%s" % (search, type(e).__name__, call_site(e)), "dtproblog(%s) raised %s: %s" % (search, type(e).__name__, e),
                         {"seed": seedstr, "search": search, "program": text})
            continue
        asg = []
        got = {}
        for kk, v in choices.items():
            nm = str(kk.args[2]) if kk.functor == "choice" else str(kk)
            got[nm] = int(v)
        # decisions the utilities do not depend on are not part of the ground program: they are free
        # a decision may be reported under the name of another atom that shares its node (u :- \\+d. reports
        # "\\+u"): every reported key is read as the literal it names, through the reference semantics
        Fz = z3.BoolVal(False)
        for nm, val in got.items():
            negd = nm.startswith("\\+")
            base = nm[2:] if negd else nm
            f = phi.get(semparse(base), Fz)
            f = z3.Not(f) if negd else f
            asg.append(f if val else z3.Not(f))
        sc = z3.RealVal(str(Fraction(score).limit_denominator(10 ** 10)))
        eps = z3.RealVal(str(EPS))
        # (a) the reported score is the expected utility of the returned strategy (for every completion of free decisions)
        r, m = chk(*(asg + [z3.Or(EU > sc + eps, EU < sc - eps)]))
        if r == "sat":
            st.ob("refuted", key=okey + ":score")
            st.violation("%s:score" % search, "%s search: reported score %s is not the expected utility %s of the returned strategy %s" % (
                search, score, m.eval(EU), got), {"seed": seedstr, "search": search, "program": text})
            continue
        st.ob("proved" if r == "unsat" else "inconclusive", key=okey + ":score")
        if search == "exhaustive":
            # (b) no strategy has a larger expected utility
            r, m = chk(EU > sc + eps)
            if r == "sat":
                better = dict((nm, z3.is_true(m.eval(v, model_completion=True))) for nm, v in dvar.items())
                st.ob("refuted", key=okey + ":optimal")
                st.violation("exhaustive:not-optimal", "exhaustive search returned %s (score %s) but strategy %s has expected utility %s" % (
                    got, score, better, m.eval(EU)), {"seed": seedstr, "search": search, "program": text})
            else:
                st.ob("proved" if r == "unsat" else "inconclusive", key=okey + ":optimal")
        else:
            # (b) no single flip improves
            for nm in got:
                flipped = []
                for n2, val in got.items():
                    negd = n2.startswith("\\+")
                    f = phi.get(semparse(n2[2:] if negd else n2), Fz)
                    f = z3.Not(f) if negd else f
                    v2 = val if n2 != nm else 1 - val
                    flipped.append(f if v2 else z3.Not(f))
                r, m = chk(*(flipped + [EU > sc + eps]))
                if r == "sat":
                    st.ob("refuted", key=okey + ":flip:" + nm)
                    st.violation("local:flip-improves", "local search returned %s (score %s) but flipping %s gives %s" % (got, score, nm, m.eval(EU)),
                                 {"seed": seedstr, "search": search, "program": text})
                else:
                    st.ob("proved" if r == "unsat" else "inconclusive", key=okey + ":flip:" + nm)
    map_check(st, rng, seedstr, chk)
    return st


def map_check(st, rng, seedstr, chk):
    """MAP over query facts: objective sum_q [d_q ? P(q|e) : 1 - P(q|e)] under the evidence constraints."""
    nf = rng.randint(2, 4)
    prog, values = [], {}
    for i in range(nf):
        prog.append(("ad", [("p%d" % (i + 1), A("f%d" % i))], []))
        values["p%d" % (i + 1)] = rng.choice([Fraction(i, 10) for i in range(1, 10)])
    atoms = [A("f%d" % i) for i in range(nf)]
    prog.append(("rule", A("e"), [(rng.choice(atoms), rng.random() < 0.3), (rng.choice(atoms), rng.random() < 0.3)]))
    prog[-1][2].sort(key=lambda l: l[1])
    if rng.random() < 0.7:
        prog.append(("evidence", A("e"), rng.random() < 0.6))
    for a in atoms:
        prog.append(("query", a))
    text = symsem.substitute_params(gen.program_text(prog), values)
    pkey = short_hash(text)
    G = refsem.ground(prog)
    atoms_q = atoms
    tabs = refsem.truth_table(G, atoms_q + [a for a, _ in G.evidence])
    n = refsem.world_count(G)
    e_tab = [True] * n
    for a, v in G.evidence:
        e_tab = [x and (y if v else not y) for x, y in zip(e_tab, tabs[a])]
    pe = refsem.exact_probability(G, e_tab, values)
    if pe == 0:
        return
    fd, path = tempfile.mkstemp(suffix=".pl", prefix="verif_c21_")
    os.write(fd, text.encode())
    os.close(fd)
    try:
        with contextlib.redirect_stdout(io.StringIO()), contextlib.redirect_stderr(io.StringIO()):
            ok, res = maptask.main([path], result_handler=lambda r, o: None)
    finally:
        os.unlink(path)
    okey = "map:" + pkey
    if not ok:
        st.ob("refuted", key=okey)
        st.violation("map:raised:%s" % type(res).__name__, "map task raised %s: %s" % (type(res).__name__, res),
                     {"seed": seedstr, "search": "map", "program": text})
        return
    choices, score, stats = res
    got = dict((str(k), int(v)) for k, v in choices.items())
    obj = z3.RealVal(0)
    dv = {}
    for a in atoms_q:
        pq = refsem.exact_probability(G, [x and y for x, y in zip(tabs[a], e_tab)], values) / pe
        v = z3.Bool("m_" + gen.atom_str(a))
        dv[gen.atom_str(a)] = v
        obj = obj + z3.If(v, z3.RealVal(str(pq)), z3.RealVal(str(1 - pq)))
    asg = [dv[nm] if val else z3.Not(dv[nm]) for nm, val in got.items() if nm in dv]
    sc = z3.RealVal(str(Fraction(score).limit_denominator(10 ** 10)))
    eps = z3.RealVal(str(EPS))
    r, m = chk(*(asg + [z3.Or(obj > sc + eps, obj < sc - eps)]))
    if r == "sat":
        st.ob("refuted", key=okey + ":score")
        st.violation("map:score", "map: reported score %s is not the objective %s of the returned assignment %s" % (score, m.eval(obj), got),
                     {"seed": seedstr, "search": "map", "program": text})
        return
    st.ob("proved" if r == "unsat" else "inconclusive", key=okey + ":score")
    r, m = chk(obj > sc + eps)
    if r == "sat":
        st.ob("refuted", key=okey + ":optimal")
        st.violation("map:not-optimal", "map returned %s (score %s) but another assignment scores %s" % (got, score, m.eval(obj)),
                     {"seed": seedstr, "search": "map", "program": text})
    else:
        st.ob("proved" if r == "unsat" else "inconclusive", key=okey + ":optimal")


def main(tier, seed):
    run = Run("C21", tier, seed, "translation_validation",
              "the decisions of each generated decision-theoretic program are Boolean unknowns of an SMT encoding of the expected "
              "utility built from the reference semantics (worlds of the probabilistic facts summed exactly); z3 proves that the "
              "score returned by the real exhaustive search is the expected utility of the returned strategy and that NO strategy "
              "scores higher; for local search that no single flip improves; for the MAP task the same for its objective")
    run.functions = FUNCS
    run.assumptions = ["programs seeded: 1-4 decisions, 1-4 probabilistic facts (+ optional AD), acyclic rules with negation, utilities on "
                       "atoms and negated atoms; probabilities and utilities concrete", "tolerance 1e-7 on scores (floats)",
                       "MAP: unconstrained objective sum_q [d_q ? P(q|e) : 1-P(q|e)] as implemented/documented in tasks/map.py; "
                       "evidence constraints on decision nodes are not modelled (evidence is put on a derived atom)"]
    n = 80 if tier == "quick" else 2500
    items = [("dt/%d/%d" % (seed, i), "c21/%s/%s" % (seed, i)) for i in range(n)]
    items += [("dt-gated/%d/%d" % (seed, i), "c21g/%s/%s" % (seed, i)) for i in range(n // 2)]
    items += [("dt-rewards/%d/%d" % (seed, i), "c21m/%s/%s" % (seed, i)) for i in range(n // 2)]
    run.bounds = {"programs": len(items), "max_decisions": 4}
    for st in pmap(work, items, item_timeout=180):
        run.merge(st)
    return run.finish()


def replay(obj):
    st = work(("replay", obj["seed"]))
    return any(v["replay"]["search"] == obj["search"] for v in st["violations"])

"""C10 Compiled d-DNNF is a valid, equivalent circuit (E3)."""
import random

import z3

from vlib import gen, tv, pipeline
from vlib.common import Run, Stats, pmap, short_hash

FUNCS = ["problog.ddnnf_formula._compile (incl. trivial-CNF path)", "problog.ddnnf_formula._load_nnf",
         "problog.cnf_formula.CNF.to_dimacs (input of dsharp)", "bundled dsharp binary (outputs validated)"]


def programs(tier, seed):
    items = []
    for name, prog in gen.corpus():
        items.append((name, gen.program_text(prog)))
    n = 120 if tier == "quick" else 2500
    for i in range(n):
        prog = gen.generate(seed, 7000 + i, max_choices=8 if i % 4 else 20)
        items.append(("gen/%d/%d" % (seed, i), gen.program_text(prog)))
    # trivial CNFs: only facts / no clauses
    items.append(("trivial-1", "0.3::a. query(a)."))
    items.append(("trivial-2", "0.3::a. 0.4::b. query(a). query(b). evidence(b)."))
    items.append(("trivial-ad", "0.3::a; 0.4::b. query(a). query(b)."))
    items.append(("det-true", "a. query(a)."))
    items.append(("det-false", "0.5::b. a :- b, \\+b. query(a)."))
    # tautologies and contradictions the grounder does not simplify, queried through positive and negative literals
    items.append(("hidden-tautology-neg-query", "0.3::a. 0.4::b. t :- a, b. t :- \\+a. t :- \\+b. query(\\+t). query(t). query(a)."))
    items.append(("hidden-tautology-derived", "0.3::a. 0.4::b. t :- a, b. t :- \\+a. t :- \\+b. nt :- \\+t. query(nt). query(a)."))
    items.append(("hidden-tautology-evidence", "0.3::a. 0.4::b. t :- a, b. t :- \\+a. t :- \\+b. nt :- \\+t. u :- nt. u :- a. evidence(t). query(u). query(nt)."))
    items.append(("hidden-contradiction", "0.3::a. 0.4::b. c :- a, \\+a. c :- b, \\+b, a. nc :- \\+c. query(c). query(nc). query(\\+c). query(b)."))
    items.append(("hidden-tautology-one-atom", "0.3::a. t :- a. t :- \\+a. nt :- \\+t. query(nt). query(\\+t). query(t)."))
    items.append(("query-absent-literal", "0.5::b. 0.5::c. a :- b. query(a). query(c). evidence(b,false)."))
    # the same compilation path with deterministic atoms kept in the ground program (keep_all)
    extra = []
    for name, text in items[::3]:
        extra.append((name + "+keep_all", text, {"keep_all": True}))
    extra.append(("keep_all-neg-det", "a. 0.4::b. 0.5::c. q :- a,b. q :- \\+a,c. r :- \\+a. query(q). query(r). query(a).",
                  {"keep_all": True}))
    return [(n, t, {}) for n, t in items] + extra


def check_one(item):
    name, text, kw = item
    st = Stats()
    st["programs"] = 1
    ntext = pipeline.numeric_text(text)
    try:
        art = pipeline.artifacts(ntext, upto="ddnnf", **kw)
    except Exception as e:
        st.ob("inconclusive", note="pipeline raised %s" % type(e).__name__)
        return st
    cnf, nnf = art["cnf"], art["nnf"]
    pkey = short_hash(ntext + str(sorted(kw.items())))
    sat = tv.Sat()
    if len(st["samples"]) < 1:
        st["samples"].append({"name": name, "program": text, "cnf_vars": cnf.atomcount,
                              "clauses": cnf.clausecount, "nnf_nodes": len(nnf)})

    def violation(kind, what):
        st.violation("%s:%s" % (kind, pkey), what, {"kind": "c10", "program": ntext, "check": kind, "options": kw})

    def cvar(i):
        return z3.Bool("n%d" % i)

    nodes, vs = tv.nnf_structure(nnf)
    val = tv.encode_formula(nnf, avar=cvar)
    # --- syntactic: decomposable / smooth --------------------------------------------
    dec_ok = smooth_ok = True
    for i, (t, ch) in nodes.items():
        if t == "conj":
            seen = set()
            for c in ch:
                v = vs[abs(c)] if c not in (0, None) else frozenset()
                if seen & v:
                    dec_ok = False
                seen |= v
        elif t == "disj":
            sets = [vs[abs(c)] if c not in (0, None) else frozenset() for c in ch]
            if any(s != sets[0] for s in sets):
                smooth_ok = False
    st.ob("proved" if dec_ok else "refuted", key="dec:" + pkey)
    if not dec_ok:
        violation("decomposable", "an AND node has children sharing a variable")
    st.ob("proved" if smooth_ok else "refuted", key="smooth:" + pkey)
    if not smooth_ok:
        violation("smooth", "an OR node has children over different variable sets")
    # --- determinism: OR children pairwise mutually exclusive (SAT) -----------------------
    det = "proved"
    for i, (t, ch) in nodes.items():
        if t == "disj":
            for a in range(len(ch)):
                for b in range(a + 1, len(ch)):
                    r, m = sat.check(tv.lit_of(val, ch[a]), tv.lit_of(val, ch[b]))
                    if r == "sat":
                        det = "refuted"
                        violation("determinism", "OR node %d has two jointly satisfiable children" % i)
                    elif r != "unsat" and det == "proved":
                        det = "inconclusive"
    st.ob(det, key="det:" + pkey)
    # --- equivalence with the CNF (all assignments of the CNF variables) -------------
    defs, cons = tv.cnf_clauses(cnf, cvar)
    # atoms kept by keep_all without a weight are deterministic: the loader folds them to constants, so
    # the circuit is compared with the CNF restricted to the models of positive weight
    cw0 = cnf.get_weights()
    det = [cvar(i) for i, w in cw0.items() if w is None and isinstance(i, int) and i > 0] + \
          [z3.Not(cvar(i)) for i, w in cw0.items() if w is False and isinstance(i, int) and i > 0]
    detvars = set(i for i, w in cw0.items() if (w is None or w is False))
    cnf_f = z3.And(*(defs + cons)) if defs + cons else z3.BoolVal(True)
    root = val[len(nnf)] if len(nnf) > 0 else z3.BoolVal(True)
    r, m = sat.check(z3.Xor(cnf_f, root), *det)
    if r == "unsat":
        st.ob("proved", key="equiv:" + pkey)
    elif r == "sat":
        st.ob("refuted", key="equiv:" + pkey)
        violation("equivalence", "d-DNNF and CNF differ on an assignment")
    else:
        st.ob("inconclusive", key="equiv:" + pkey, note="z3 unknown")
    # smooth circuit mentions every CNF variable (so that WMC needs no correction factor)
    allv = vs[len(nnf)] if len(nnf) > 0 else frozenset()
    missing = [i for i in range(1, cnf.atomcount + 1) if i not in allv and i not in detvars]
    if missing:
        st.ob("refuted", key="allvars:" + pkey)
        violation("missing-vars", "CNF variables %s absent from the smooth circuit" % missing[:5])
    else:
        st.ob("proved", key="allvars:" + pkey)
    # --- labels: same literal under the models ----------------------------------------
    nn = {}
    for n, k, l in nnf.get_names_with_label():
        nn[(str(n), l)] = k
    lab = "proved"
    for n, k, l in cnf.get_names_with_label():
        if (str(n), l) not in nn:
            lab = "refuted"
            violation("label-lost", "name %s (%s) lost in d-DNNF" % (n, l))
            continue
        k2 = nn[(str(n), l)]
        a = z3.BoolVal(True) if k == 0 else z3.BoolVal(False) if k is None else \
            (cvar(k) if k > 0 else z3.Not(cvar(-k)))
        b = tv.lit_of(val, k2)
        if k2 not in (0, None) and nodes[abs(k2)][0] != "atom":
            lab = "refuted"
            violation("label-nonatom", "name %s points to a non-literal node" % n)
            continue
        r, m = sat.check(cnf_f, z3.Xor(a, b), *det)
        if r == "sat":
            lab = "refuted"
            violation("label", "name %s: CNF literal %s and d-DNNF literal %s differ in a model" % (n, k, k2))
        elif r != "unsat" and lab == "proved":
            lab = "inconclusive"
    st.ob(lab, key="labels:" + pkey)
    # --- weights and constraints carried over --------------------------------------
    wok = True
    cw = cnf.get_weights()
    for k, w in nnf.get_weights().items():
        ident = nodes[k][1]
        if cw.get(ident, True) != w and not (w is True and ident not in cw):
            wok = False
    ident_of = dict((i, c) for i, (t, c) in nodes.items() if t == "atom")
    ccons = sorted((sorted(c.nodes), c.extra_node) for c in cnf.constraints() if hasattr(c, "extra_node"))
    ncons = []
    for c in nnf.constraints():
        if hasattr(c, "extra_node"):
            ncons.append((sorted(ident_of.get(n, ("?", n)) for n in c.nodes),
                          ident_of.get(c.extra_node, c.extra_node)))
    try:
        cons_ok = sorted(ncons) == ccons
    except TypeError:
        cons_ok = False
    st.ob("proved" if (wok and cons_ok) else "refuted", key="wc:" + pkey)
    if not (wok and cons_ok):
        violation("weights-constraints", "weights or constraints not carried over (weights ok=%s, constraints ok=%s)" % (wok, cons_ok))
    st["solver_time"] += sat.solver_time
    st["queries"] += sat.queries
    return st


def main(tier, seed):
    run = Run("C10", tier, seed, "translation_validation",
              "every (CNF, d-DNNF) pair produced by the real _compile/_load_nnf is encoded; z3 proves "
              "determinism of every OR node, equivalence with the CNF over all assignments, and label "
              "agreement; decomposability/smoothness are computed from the real node table")
    run.functions = FUNCS
    run.assumptions = ["CNFs come from the corpus + seeded generator (bounded set)",
                       "dsharp is validated only on these outputs"]
    items = programs(tier, seed)
    run.bounds = {"cnfs": len(items), "z3_timeout_ms": 20000}
    for st in pmap(check_one, items, item_timeout=30 if tier == "quick" else 120):
        run.merge(st)
    return run.finish()


def replay(obj):
    st = check_one(("replay", obj["program"], obj.get("options") or {}))
    return bool(st["violations"])

"""C02 Programs with a cycle through negation are rejected, never answered (E2 classification + E1)."""
import random

import z3

from problog.errors import GroundingError, ProbLogError

from vlib import gen, refsem, semcheck, symsem, pipeline, engine_events
from vlib.common import Run, Stats, pmap, short_hash
from vlib.semcheck import call_site

FUNCS = ["problog.eval_nodes.EvalNot.createCycle (NegativeCycle)", "problog.engine_stack.StackBasedEngine.checkCycle / "
         "notify_cycle", "problog.eval_nodes.EvalDefine.cycleDetected", "C01 pipeline for must-answer programs"]


def hand_corpus():
    A, P, N = gen.A, gen.P, gen.N
    C = []
    C.append(("direct-loop", [("ad", [("p1", A("f"))], []), ("rule", A("a"), [N(A("b")), P(A("f"))]),
                              ("rule", A("b"), [N(A("a"))]), ("query", A("a"))]))
    C.append(("self-loop", [("ad", [("p1", A("f"))], []), ("rule", A("a"), [P(A("f")), N(A("a"))]),
                            ("query", A("a"))]))
    C.append(("loop-behind-positive-cycle",
              [("ad", [("p1", A("f"))], []), ("ad", [("p2", A("g"))], []),
               ("rule", A("a"), [P(A("b"))]), ("rule", A("b"), [P(A("a"))]), ("rule", A("b"), [P(A("g")), N(A("c"))]),
               ("rule", A("c"), [P(A("f")), N(A("a"))]), ("query", A("a"))]))
    C.append(("loop-via-evidence-atom",
              [("ad", [("p1", A("f"))], []), ("rule", A("a"), [N(A("b"))]), ("rule", A("b"), [N(A("a")), P(A("f"))]),
               ("rule", A("q"), [P(A("f"))]), ("query", A("q")), ("evidence", A("a"), True)]))
    C.append(("stratified-double-negation",
              [("ad", [("p1", A("f"))], []), ("rule", A("a"), [N(A("b"))]), ("rule", A("b"), [N(A("c"))]),
               ("rule", A("c"), [P(A("f"))]), ("query", A("a"))]))
    C.append(("loop-unreachable-from-query",
              [("ad", [("p1", A("f"))], []), ("rule", A("a"), [N(A("b"))]), ("rule", A("b"), [N(A("a"))]),
               ("rule", A("q"), [P(A("f"))]), ("query", A("q"))]))
    C.append(("cached-goal-loop",
              [("ad", [("p1", A("f"))], []), ("rule", A("c"), [P(A("f"))]),
               ("rule", A("a"), [P(A("c")), N(A("b"))]), ("rule", A("b"), [P(A("c")), N(A("a"))]),
               ("query", A("c")), ("query", A("a")), ("query", A("b"))]))
    C.append(("loop-entered-under-open-positive-recursion",
              [("ad", [("p1", A("x"))], []), ("ad", [("p2", A("f"))], []),
               ("rule", A("r"), [P(A("r")), P(A("x"))]), ("rule", A("r"), [P(A("p"))]),
               ("rule", A("p"), [P(A("f"))]), ("rule", A("p"), [N(A("p"))]), ("query", A("r"))]))
    return C


def classify(prog):
    """('must-answer'|'must-reject'|'either', witness)"""
    G = refsem.ground(prog)
    neg = refsem.negative_cycle_atoms(G)
    if not refsem.full_graph_has_negative_cycle(prog):
        return "must-answer", None, G
    if not neg:
        # loop only among underivable atoms: goal-directed evaluation may or may not meet it
        return "either", None, G
    undef, under, over = refsem.wfm_undefined(G)
    legal = refsem.legal_constraints(G)
    targets = []
    for pat in G.query_patterns:
        targets += refsem.query_instances(G, pat)
    targets += [a for a, _ in G.evidence]
    s = z3.Solver()
    s.set("timeout", 20000)
    for c in legal:
        s.add(c)
    for a in targets:
        if a in undef:
            s.push()
            s.add(undef[a])
            r = s.check()
            if str(r) == "sat":
                m = s.model()
                w = [b for g in G.groups for _, b in g.heads if z3.is_true(m.eval(z3.Bool(b), model_completion=True))]
                s.pop()
                return "must-reject", (gen.atom_str(a), w), G
            s.pop()
            if str(r) == "unknown":
                return "either", None, G
    return "either", None, G


def run_concrete(text):
    ntext = pipeline.numeric_text(text)
    return symsem.run_float(ntext)


def work(item):
    name, prog = item
    st = Stats()
    st["programs"] = 1
    text = gen.program_text(prog)
    pkey = short_hash(text)
    try:
        cls, wit, G = classify(prog)
    except Exception as e:
        st.ob("inconclusive", note="classification failed: %s" % e)
        return st
    st["class_" + cls] = 1
    if len(st["samples"]) < 1:
        st["samples"].append({"name": name, "program": text, "class": cls, "witness": wit})
    if cls == "must-answer":
        s2 = semcheck.check_semantics(prog, name)
        s2["class_must-answer"] = 1
        s2["samples"] = st["samples"]
        return s2
    kind, res = run_concrete(text)
    if cls == "must-reject":
        okey = "reject:" + pkey
        if kind == "error" and isinstance(res, GroundingError):
            st.ob("proved", key=okey)
        elif kind == "error":
            st.ob("refuted", key=okey)
            st.violation("error:%s@%s" % (type(res).__name__, call_site(res)),
                         "program with a loop through negation (atom %s undefined in world %s) raised %s instead of "
                         "a GroundingError" % (wit[0], wit[1], type(res).__name__),
                         {"kind": "c02", "ast": prog, "program": text, "class": cls})
        else:
            st.ob("refuted", key=okey)
            # a known engine defect is identified by its call site (observed, not patched): the
            # negated goal's node is taken from the cache while the goal is still active on a cycle
            with engine_events.observe() as events:
                run_concrete(text)
                site = sorted(set(events))
            if site:
                # causal test: with that read answered by the engine's ordinary cycle handling instead of the cache,
                # is the program rejected?  Only then is the known defect the cause.
                with engine_events.observe(bypass=True):
                    k2, r2 = run_concrete(text)
                if not (k2 == "error" and isinstance(r2, GroundingError)):
                    site = []
            st.violation("answered:%s" % (site[0] if site else pkey),
                         "query/evidence atom %s has no two-valued truth value in world %s but inference returned %s" % (
                             wit[0], wit[1], res),
                         {"kind": "c02", "ast": prog, "program": text, "class": cls})
    else:
        # either: nothing asserted, but an internal exception is still not acceptable
        if kind == "error" and not isinstance(res, ProbLogError):
            st.ob("refuted", key="either:" + pkey)
            st.violation("error:%s@%s" % (type(res).__name__, call_site(res)),
                         "raised internal %s" % type(res).__name__,
                         {"kind": "c02", "ast": prog, "program": text, "class": cls})
        else:
            st.ob("proved", key="either:" + pkey)
    return st


def main(tier, seed):
    run = Run("C02", tier, seed, "translation_validation",
              "each skeleton is classified with the solver (alternating-fixpoint WFM encoded in z3: is some "
              "queried/evidence atom undefined in some world?); must-reject programs must raise a GroundingError, "
              "must-answer programs must not raise and satisfy C01's solver-decided obligations")
    run.functions = FUNCS
    run.assumptions = ["must-reject is narrower than the property (the undefined atom must be a query/evidence "
                       "atom), so a correct implementation is never flagged; 'either' asserts nothing",
                       "skeletons enumerated (hand corpus + seeded negative-loop family)"]
    items = hand_corpus()
    n = 150 if tier == "quick" else 3000
    for i in range(n):
        items.append(("neg/%d/%d" % (seed, i), gen.negcycle_program(random.Random("neg/%s/%s" % (seed, i)))))
    for i in range(n):
        items.append(("negrec/%d/%d" % (seed, i), gen.negcycle_under_recursion(random.Random("negrec/%s/%s" % (seed, i)))))
        if i % 3 == 0:
            items.append(("negnest/%d/%d" % (seed, i), gen.negcycle_nested_positive(random.Random("negnest/%s/%s" % (seed, i)))))
    counts = {"must-answer": 0, "must-reject": 0, "either": 0}
    for st in pmap(work, items, item_timeout=60 if tier == "quick" else 300):
        for k in counts:
            counts[k] += st.get("class_" + k, 0)
        run.merge(st)
    run.extra["classes"] = counts
    run.bounds = {"skeletons": len(items), "atoms_in_alternating_fixpoint": "<= 40"}
    return run.finish()


def replay(obj):
    prog = semcheck._detuple(obj["ast"])
    st = work(("replay", prog))
    return bool(st["violations"])

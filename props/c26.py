"""C26 subquery/2,3 computes the same probabilities as top-level inference (E1)."""
import random
import re
from fractions import Fraction

import z3

import problog
from problog import get_evaluatable
from problog.evaluator import SemiringProbability
from problog.program import PrologString

from vlib import gen, diffcheck, symsem, sym
from vlib.common import Run, Stats, pmap, short_hash

FUNCS = ["problog.engine_builtin._builtin_subquery / _create_evaluator_and_semiring",
         "semiring registry problog._semirings (the real SemiringProbability on SymReal proxies is registered "
         "under 'prob' inside the check process)", "evaluation pipeline as in C01"]


def wrap_program(prog, with_evidence):
    """Top-level program T (queries, optional evidence list as real evidence) and wrapper
    program W whose answers carry the subquery probability as an argument."""
    body = [s for s in prog if s[0] not in ("query", "evidence")]
    queries = [s[1] for s in prog if s[0] == "query"]
    distract = with_evidence == "distract"
    all_evid = [(s[1], s[2]) for s in prog if s[0] == "evidence"]
    evid = all_evid if with_evidence is True else []
    base = gen.program_text(body)
    top = base + "".join("query(%s).\n" % gen.atom_str(q) for q in queries)
    top += "".join("evidence(%s,%s).\n" % (gen.atom_str(a), "true" if v else "false") for a, v in evid)
    w = base + ":- use_module(library(lists)).\n"
    for i, q in enumerate(queries):
        vs = [a for a in q[1] if gen.is_var(a)]
        head = "sq%d(%s)" % (i, ",".join(list(dict.fromkeys(vs)) + ["P"]))
        if evid:
            el = "[%s]" % ",".join(("" if v else "\\+") + gen.atom_str(a) for a, v in evid)
            w += "%s :- subquery(%s, P, %s).\n" % (head, gen.atom_str(q), el)
        elif distract and all_evid and not vs:
            # the same goal is first asked under the skeleton's evidence (answer ignored), then without evidence:
            # the second answer has to be the marginal, whatever the first call left behind
            el = "[%s]" % ",".join(("" if v else "\\+") + gen.atom_str(a) for a, v in all_evid)
            w += "%s :- subquery(%s, _, %s), subquery(%s, P).\n" % (head, gen.atom_str(q), el, gen.atom_str(q))
        else:
            w += "%s :- subquery(%s, P).\n" % (head, gen.atom_str(q))
        w += "query(%s).\n" % head
    return top, w, queries


def run_wrapper(wtext, sr):
    """Evaluate the wrapper; the subquery uses the semiring class registered as 'prob'."""
    f = get_evaluatable("ddnnf").create_from(PrologString(wtext))
    return f.evaluate(semiring=SemiringProbability())


def extract(results, queries):
    """{sq0(a,<P>): 1.0} -> {q(a): P}; P taken from the answer term itself."""
    out = {}
    for name, val in results.items():
        nm = name
        functor = nm.functor
        m = re.match(r"^sq(\d+)$", functor)
        if not m:
            continue
        q = queries[int(m.group(1))]
        args = list(nm.args)
        p = args[-1]
        vals = [str(a) for a in args[:-1]]
        vs = list(dict.fromkeys(a for a in q[1] if gen.is_var(a)))
        th = dict(zip(vs, vals))
        inst = (q[0], tuple(th.get(a, a) for a in q[1]))
        out[gen.atom_str(inst)] = (p, val)
    return out


class _PTerm(object):
    """Carries a SymReal through ProbLog's term world: the subquery builtin wraps the
    evaluator's result in Constant(...); Constant keeps the python object untouched."""


def work(item):
    name, prog, with_ev = item
    st = Stats()
    st["programs"] = 1
    top, w, queries = wrap_program(prog, with_ev)
    groups = gen.ad_groups_of(prog)
    params = symsem.find_params(top)
    region = symsem.default_region(params, groups)
    pv = symsem.Prover(region, 20000)
    pkey = short_hash([top, w])
    if len(st["samples"]) < 1:
        st["samples"].append({"name": name, "top": top, "wrapper": w})

    def concrete(values):
        ntop = symsem.substitute_params(top, values)
        nw = symsem.substitute_params(w, values)
        k1, r1 = symsem.run_float(ntop, semiring=SemiringProbability())
        try:
            res = get_evaluatable("ddnnf").create_from(PrologString(nw)).evaluate(semiring=SemiringProbability())
            r2 = extract(res, queries)
            k2 = "ok"
        except Exception as e:
            k2, r2 = "error", e
        return k1, r1, k2, r2

    def replay(values):
        k1, r1, k2, r2 = concrete(values)
        if k1 == "error" or k2 == "error":
            if k1 == k2:
                return False, "both raise"
            e = r1 if k1 == "error" else r2
            return True, "%s raises %s: %s" % ("top-level" if k1 == "error" else "subquery",
                                                type(e).__name__, str(e)[:150])
        for k, v in r1.items():
            if k not in r2:
                if abs(v) > 1e-9:
                    return True, "%s: top-level %.8f, subquery gives no answer" % (k, v)
                continue
            p = float(r2[k][0])
            if abs(p - v) > 1e-8:
                return True, "%s: top-level %.10f, subquery P=%.10f at %s" % (k, v, p, dict(
                    (a, str(b)) for a, b in values.items()))
        return False, "agree"

    def violation(kind, detail, what, values=None):
        values = values or diffcheck.default_values(params, groups)
        rep, info = replay(values)
        if rep:
            st.violation("%s:%s:%s" % (kind, pkey, detail), what + " :: " + info,
                         {"kind": "subquery", "ast": prog, "with_evidence": with_ev,
                          "values": dict((k, str(v)) for k, v in values.items())})
        return rep

    # symbolic: top-level rational functions
    try:
        outs, drv = symsem.run_real(top, params, region=region)
        st["solver_time"] += drv.solver_time
        st["queries"] += drv.queries
        old = problog._semirings["prob"]
        problog._semirings["prob"] = symsem.SymProbability
        try:
            d2 = sym.PathDriver(region, timeout_ms=10000, max_paths=8)
            d2.params = dict((p, sym.param(p)) for p in params)
            paths = d2.explore(lambda: extract(run_wrapper(w, None), queries))
        finally:
            problog._semirings["prob"] = old
        st["solver_time"] += d2.solver_time
        st["queries"] += d2.queries
    except (sym.Unsupported, sym.Inconclusive) as e:
        st.ob("inconclusive", note="symbolic run: %s" % e)
        return st
    if len(outs) != 1 or len(paths) != 1:
        st.ob("inconclusive", note="fork in default region")
        return st
    o, (pc, kind, val) = outs[0], paths[0]
    if o.kind == "error" or kind == "exc":
        e1 = o.error
        e2 = val if kind == "exc" else None
        if with_ev == "distract" and e1 is None and type(e2).__name__ == "InconsistentEvidenceError":
            # the skeleton's evidence is impossible: the distractor call cannot be evaluated, nothing to compare
            st.ob("inconclusive", key="err:" + pkey, note="distractor evidence has probability 0")
            return st
        if (e1 is None) != (e2 is None):
            ok = violation("error", "x", "top-level %s, subquery wrapper %s" % (
                type(e1).__name__ if e1 else "answers", type(e2).__name__ if e2 else "answers"))
            if ok:
                st.ob("refuted", key="err:" + pkey)
            else:
                st.harness_error("C26 symbolic run raised (%s / %s) but concrete replay agrees: %s" % (e1, e2, w))
        else:
            st.ob("proved", key="err:" + pkey)
        return st
    for k, (num, den) in o.results.items():
        okey = "sq:%s:%s" % (pkey, k)
        if k not in val:
            v, m = pv.frac_equal((num, den), (z3.RealVal(0), None))
            if v == "proved":
                st.ob("proved", key=okey)
            elif v == "refuted":
                ok = violation("missing", k, "subquery gives no answer for %s" % k, symsem.model_values(m, params))
                st.ob("refuted" if ok else "inconclusive", key=okey)
            else:
                st.ob("inconclusive", key=okey)
            continue
        p = val[k][0]
        pv_ = getattr(p, "functor", p)
        if isinstance(pv_, sym.SymReal):
            b = (pv_.e, pv_.den)
        else:
            try:
                b = (sym.rv(float(p)), None)
            except Exception:
                st.ob("inconclusive", key=okey, note="P is not numeric/symbolic: %r" % (p,))
                continue
        v, m = pv.frac_equal((num, den), b)
        if v == "proved":
            st.ob("proved", key=okey)
        elif v == "refuted":
            vals = symsem.model_values(m, params)
            ok = violation("value", k, "subquery P for %s differs from the top-level probability" % k, vals)
            if ok:
                st.ob("refuted", key=okey)
            else:
                st.harness_error("C26 model did not replay: %s %s" % (k, w))
        else:
            st.ob("inconclusive", key=okey, note="z3 unknown")
    st["solver_time"] += pv.solver_time
    st["queries"] += pv.queries
    return st


def main(tier, seed):
    run = Run("C26", tier, seed, "translation_validation",
              "wrapper rule calling subquery/2,3 evaluated with the symbolic probability semiring registered "
              "in ProbLog's registry, so P is bound to a rational function of the parameters; z3 proves it equal "
              "to the top-level (conditional) probability for all parameter values")
    run.functions = FUNCS
    run.assumptions = ["skeletons enumerated (corpus + seeded); evidence lists taken from the skeleton's evidence",
                       "an answer missing on the subquery side is accepted iff the top-level value is identically 0"]
    progs = [(n, p) for n, p in gen.corpus()]
    n = 50 if tier == "quick" else 800
    for i in range(n):
        progs.append(("gen/%d/%d" % (seed, i), gen.generate(seed, 19000 + i, max_choices=7)))
    items = []
    for name, p in progs:
        items.append((name, p, False))
        if any(s[0] == "evidence" for s in p):
            items.append((name + "+ev", p, True))
            items.append((name + "+distract", p, "distract"))
    run.bounds = {"skeletons": len(items)}
    for st in pmap(work, items, item_timeout=120 if tier == "quick" else 600):
        run.merge(st)
    return run.finish()


def replay(obj):
    from vlib.semcheck import _detuple
    prog = _detuple(obj["ast"])
    st = work(("replay", prog, obj["with_evidence"]))
    return bool(st["violations"])

"""C07 Marginals do not depend on the textual order of the program (E1, run-vs-run)."""
import random
import re
from fractions import Fraction

from problog import get_evaluatable
from problog.evaluator import SemiringProbability
from problog.program import PrologString

from vlib import gen, diffcheck
from vlib.common import Run, Stats, pmap

FUNCS = ["problog.clausedb.ClauseDB/ClauseIndex (program order)", "problog.eval_nodes.EvalAnd/EvalOr/EvalDefine",
         "problog.engine_stack.StackBasedEngine.execute", "whole pipeline as in C01 (symbolic weights)"]


def split_top(s, sep=","):
    out, depth, cur = [], 0, ""
    for ch in s:
        if ch == "(":
            depth += 1
        elif ch == ")":
            depth -= 1
        if ch == sep and depth == 0:
            out.append(cur.strip())
            cur = ""
        else:
            cur += ch
    if cur.strip():
        out.append(cur.strip())
    return out


def vars_of(s):
    return set(re.findall(r"\b[A-Z][A-Za-z0-9_]*\b", s))


def permute_text(text, seed):
    rng = random.Random(seed)
    lines = [l for l in text.split("\n") if l.strip()]
    out = []
    for l in lines:
        if ":-" in l and rng.random() < 0.8:
            head, body = l.rstrip(".").split(":-", 1)
            lits = split_top(body)
            pos = [x for x in lits if not x.startswith("\\+")]
            neg = [x for x in lits if x.startswith("\\+")]
            order = []
            bound = set()
            remaining = pos + neg
            while remaining:
                ready = [x for x in remaining if not x.startswith("\\+") or vars_of(x) <= bound]
                x = rng.choice(ready)
                remaining.remove(x)
                order.append(x)
                if not x.startswith("\\+"):
                    bound |= vars_of(x)
            l = "%s :- %s." % (head.strip(), ", ".join(order))
        out.append(l)
    rng.shuffle(out)
    return "\n".join(out) + "\n"


def make_cfg(desc):
    seed = desc.get("perm")

    def cfg(text, sr):
        if seed is not None:
            text = permute_text(text, seed)
        f = get_evaluatable("ddnnf").create_from(PrologString(text))
        return f.evaluate(semiring=sr if sr is not None else SemiringProbability())
    return cfg


def work(item):
    name, prog, seeds = item
    text = gen.program_text(prog)
    groups = gen.ad_groups_of(prog)
    st = Stats()
    for s in seeds:
        d = {"perm": s}
        diffcheck.diff_check(text, make_cfg({}), make_cfg(d), {}, d, groups=groups, name=name, st=st)
    if st["samples"]:
        st["samples"][0]["permuted"] = permute_text(text, seeds[0])
    return st


def main(tier, seed):
    run = Run("C07", tier, seed, "translation_validation",
              "original vs permuted program (statements, clauses, body literals), both through the real "
              "pipeline with symbolic weights; z3 decides identity of the rational functions / worlds")
    run.functions = FUNCS
    run.assumptions = ["permutations are seeded samples (bounded); negated literals stay after their binders",
                       "an instance reported by only one run is accepted iff its value is identically 0"]
    nperm = 4 if tier == "quick" else 40
    progs = [(n, p) for n, p in gen.corpus()]
    n = 40 if tier == "quick" else 500
    for i in range(n):
        progs.append(("gen/%d/%d" % (seed, i), gen.generate(seed, 11000 + i, max_choices=7)))
    items = [(name, prog, ["%s/%s/%d" % (seed, name, k) for k in range(nperm)]) for name, prog in progs]
    run.bounds = {"skeletons": len(items), "permutations_per_skeleton": nperm}
    for st in pmap(work, items, item_timeout=90 if tier == "quick" else 900):
        run.merge(st)
    return run.finish()


def replay(obj):
    vals = dict((k, Fraction(v)) for k, v in obj["values"].items())
    rep, info = diffcheck.replay_diff(obj["program"], make_cfg(obj["A"]), make_cfg(obj["B"]), vals,
                                      ignore_extra_zero=True)
    return rep

"""C34 Utility containers behave as their abstract models (E4: CrossHair, op kinds enumerated, data symbolic)."""
import itertools
import random

from vlib import xh
from vlib.common import Run, Stats

FUNCS = ["problog.util.OrderedSet.{add,discard,pop,__iter__,__reversed__,__len__,__contains__,__eq__,|=,&,-,|}",
         "problog.util.UHeap.{push,pop,pop_with_key,peek,__len__,_swim_up,_sink_down,_swap}",
         "problog.util.BitVector.{add,__contains__,__iter__,__len__,__and__,__or__,__iand__,__ior__,__bool__}"]

PREAMBLE = '''
from problog.util import OrderedSet, UHeap, BitVector


def os_same(s, m):
    """the real OrderedSet against the model (a list without duplicates, in first-insertion order)"""
    return list(s) == m and len(s) == len(m) and list(reversed(s)) == m[::-1] and all((x in s) == (x in m) for x in (0, 1, 2))


def m_add(m, x):
    if x not in m:
        m.append(x)


def m_discard(m, x):
    if x in m:
        m.remove(x)


def C3(j):
    """makes an item concrete on each path (dict/hash operations on symbolic keys are slow in CrossHair)"""
    if j == 0:
        return 0
    if j == 1:
        return 1
    return 2


def mk_os(items):
    s = OrderedSet()
    m = []
    for x in items:
        s.add(x)
        m_add(m, x)
    return s, m


def bv_same(b, m):
    return sorted(b) == sorted(m) and len(b) == len(m) and bool(b) == bool(m)


def mk_bv(items):
    b = BitVector()
    m = set()
    for x in items:
        b.add(x)
        m.add(x)
    return b, m
'''


# ------------------------------------------------------------------------------------------------
# OrderedSet: op kinds with their code (s: real, m: model), each consumes symbolic ints from xs

OS_OPS = {
    "add": (1, ["s.add({0})", "m_add(m, {0})"]),
    "discard": (1, ["s.discard({0})", "m_discard(m, {0})"]),
    "pop_last": (0, ["if m:\n        if s.pop() != m.pop():\n            return False",
                     "else:\n        try:\n            s.pop()\n            return False\n        except KeyError:\n            pass"]),
    "pop_first": (0, ["if m:\n        if s.pop(last=False) != m.pop(0):\n            return False"]),
    "ior": (2, ["o, om = mk_os([{0}, {1}])", "s |= o", "for x in om:\n        m_add(m, x)"]),
    "and": (2, ["o, om = mk_os([{0}, {1}])", "s = s & o", "m = [x for x in m if x in om]",
                "if sorted(s) != sorted(m):\n        return False", "m = list(s)"]),
    "sub": (2, ["o, om = mk_os([{0}, {1}])", "s = s - o", "m = [x for x in m if x not in om]"]),
    "or": (2, ["o, om = mk_os([{0}, {1}])", "s = s | o", "m = m + [x for x in om if x not in m]"]),
    "eq": (2, ["o, om = mk_os([{0}, {1}])", "if (s == o) != (m == om):\n        return False"]),
}


def os_harness(idx, kinds):
    n = 0
    lines = ["    s, m = mk_os([])"]
    for k in kinds:
        arity, code = OS_OPS[k]
        args = ["C3(x%d)" % (n + i + 1) for i in range(arity)]
        n += arity
        for c in code:
            lines.append("    " + c.format(*args))
        lines.append("    if not os_same(s, m):\n        return False")
    lines.append("    return True")
    names = ["x%d" % (i + 1) for i in range(n)]
    sig = ", ".join("%s: int" % x for x in names)
    pre = " and ".join("0 <= %s <= 2" % x for x in names) or "True"
    name = "h_os_%d" % idx
    src = 'def %s(%s) -> bool:\n    """\n    pre: %s\n    post: _\n    """\n%s\n' % (name, sig, pre, "\n".join(lines))
    return xh.Harness(name, src, {"container": "OrderedSet", "ops": list(kinds)})


# ------------------------------------------------------------------------------------------------
# UHeap: items concrete (0..2), keys symbolic

def uh_harness(idx, ops):
    """ops: list of ('push', item) | ('pop',) | ('peek',)"""
    n = 0
    lines = ["    table = {}", "    h = UHeap(key=lambda it: table[it])", "    m = {}"]
    for op in ops:
        if op[0] == "push":
            n += 1
            k = "k%d" % n
            lines += ["    table[%d] = %s" % (op[1], k), "    new = h.push(%d)" % op[1],
                      "    if new != (%d not in m):\n        return False" % op[1], "    m[%d] = %s" % (op[1], k)]
        elif op[0] == "pop":
            lines += ["    if m:\n        key, item = h.pop_with_key()\n        if key != min(m.values()) or m.get(item) != key:\n            return False\n        del m[item]"]
        else:
            lines += ["    if m:\n        item = h.peek()\n        if m.get(item) != min(m.values()):\n            return False"]
        lines.append("    if len(h) != len(m):\n        return False")
    # drain: items come out in non-decreasing key order
    lines += ["    last = None", "    while m:\n        key, item = h.pop_with_key()\n        if key != min(m.values()) or m.get(item) != key:\n            return False\n"
              "        if last is not None and key < last:\n            return False\n        last = key\n        del m[item]",
              "    return len(h) == 0"]
    names = ["k%d" % (i + 1) for i in range(n)]
    sig = ", ".join("%s: int" % x for x in names)
    pre = " and ".join("0 <= %s <= 3" % x for x in names) or "True"
    name = "h_uh_%d" % idx
    src = 'def %s(%s) -> bool:\n    """\n    pre: %s\n    post: _\n    """\n%s\n' % (name, sig, pre, "\n".join(lines))
    return xh.Harness(name, src, {"container": "UHeap", "ops": [list(o) for o in ops]})


# ------------------------------------------------------------------------------------------------
# BitVector: indices symbolic in [0, 70)

BV_OPS = {
    "add": (1, ["b.add({0})", "m.add({0})"]),
    "contains": (1, ["if bool({0} in b) != ({0} in m):\n        return False"]),
    "and": (2, ["o, om = mk_bv([{0}, {1}])", "b = b & o", "m = m & om"]),
    "or": (2, ["o, om = mk_bv([{0}, {1}])", "b = b | o", "m = m | om"]),
    "iand": (2, ["o, om = mk_bv([{0}, {1}])", "b &= o", "m &= om"]),
    "ior": (2, ["o, om = mk_bv([{0}, {1}])", "b |= o", "m |= om"]),
    "and_r": (2, ["o, om = mk_bv([{0}, {1}])", "b = o & b", "m = om & m"]),
}


BV_POINTS = [0, 31, 32, 63, 64]


def bv_harness(idx, kinds, hi=70, selector=True):
    n = 0
    lines = ["    b, m = mk_bv([])"]
    if selector:
        # an if-chain makes every index concrete on its path (symbolic shifts / sets of symbolic ints
        # are beyond CrossHair's budget); the solver still enumerates every combination of points
        lines.insert(0, "    def P(j):\n" + "".join("        if j == %d:\n            return %d\n" % (a, v) for a, v in enumerate(BV_POINTS)) + "        return 0")
    for k in kinds:
        arity, code = BV_OPS[k]
        args = [("P(i%d)" if selector else "i%d") % (n + i + 1) for i in range(arity)]
        n += arity
        for c in code:
            lines.append("    " + c.format(*args))
        lines.append("    if not bv_same(b, m):\n        return False")
    lines.append("    return True")
    names = ["i%d" % (i + 1) for i in range(n)]
    sig = ", ".join("%s: int" % x for x in names)
    pre = " and ".join("0 <= %s < %d" % (x, len(BV_POINTS) if selector else hi) for x in names) or "True"
    name = "h_bv_%d" % idx
    src = 'def %s(%s) -> bool:\n    """\n    pre: %s\n    post: _\n    """\n%s\n' % (name, sig, pre, "\n".join(lines))
    return xh.Harness(name, src, {"container": "BitVector", "ops": list(kinds), "selector": selector})


def harnesses(tier, seed):
    rng = random.Random("c34/%s" % seed)
    hs = []
    os_kinds = list(OS_OPS)
    seqs = [s for L in (1, 2) for s in itertools.product(os_kinds, repeat=L)]
    l3 = list(itertools.product(os_kinds, repeat=3))
    rng.shuffle(l3)
    seqs += l3[:30] if tier == "quick" else l3[:250]
    if tier == "thorough":
        l4 = list(itertools.product(os_kinds, repeat=4))
        rng.shuffle(l4)
        seqs += l4[:150]
    for i, s in enumerate(seqs):
        hs.append(os_harness(i, s))
    # UHeap: op sequences over 3 items
    uops = [("push", 0), ("push", 1), ("push", 2), ("pop",), ("peek",)]
    useqs = [s for L in (2, 3) for s in itertools.product(uops, repeat=L) if any(o[0] == "push" for o in s)]
    l4 = [s for s in itertools.product(uops, repeat=4) if sum(o[0] == "push" for o in s) >= 2]
    l5 = [s for s in itertools.product(uops, repeat=5) if sum(o[0] == "push" for o in s) >= 3]
    rng.shuffle(l4)
    rng.shuffle(l5)
    if tier == "quick":
        l3u = [s for s in useqs if len(s) == 3]
        rng.shuffle(l3u)
        useqs = [s for s in useqs if len(s) == 2] + l3u[:40]
    useqs += (l4[:25] + l5[:15]) if tier == "quick" else (l4[:200] + l5[:150])
    for i, s in enumerate(useqs):
        hs.append(uh_harness(i, s))
    bv_kinds = list(BV_OPS)
    bseqs = [s for L in (1, 2) for s in itertools.product(bv_kinds, repeat=L)]
    b3 = list(itertools.product(bv_kinds, repeat=3))
    rng.shuffle(b3)
    if tier == "quick":
        b2 = [s for s in bseqs if len(s) == 2]
        rng.shuffle(b2)
        bseqs = [s for s in bseqs if len(s) == 1] + b2[:25]
    bseqs += b3[:8] if tier == "quick" else b3[:200]
    for i, s in enumerate(bseqs):
        hs.append(bv_harness(i, s, selector=True))
    # raw index range [0,70) for single operations (symbolic shifts are expensive for CrossHair)
    for j, k in enumerate(["add", "contains"]):
        hs.append(bv_harness(1000 + j, (k,), selector=False))
    return hs


def main(tier, seed):
    run = Run("C34", tier, seed, "other",
              "one CrossHair condition per operation-kind sequence: the real container and its abstract model (insertion-"
              "ordered list without duplicates / dict item->key with min extraction / Python set) are driven in lock step "
              "with symbolic items, keys and bit indices; after every operation the observable state must agree.")
    run.functions = FUNCS
    hs = harnesses(tier, seed)
    timeout = 25 if tier == "quick" else 60
    run.assumptions = ["operation-kind sequences enumerated (OrderedSet/BitVector: all of length <= 2 + seeded length 3 "
                       "(thorough: all of length 3, sample of 4); UHeap: length 2-5 over 3 concrete items)",
                       "OrderedSet items symbolic in {0,1,2}; UHeap keys symbolic in [0,3]; BitVector indices symbolic in [0,70)",
                       "'Not confirmed' is inconclusive"]
    st = Stats()
    res, cpu = xh.run(hs, PREAMBLE, per_condition_timeout=timeout)
    byname = dict((h.name, h) for h in hs)
    for name, (verdict, detail) in sorted(res.items()):
        h = byname[name]
        okey = "%s:%s" % (h.meta["container"], h.meta["ops"])
        if verdict == "confirmed":
            st.ob("proved", key=okey)
        elif verdict == "inconclusive":
            st.ob("inconclusive", key=okey, note="%s: %s" % (okey[:80], detail[:60]))
        else:
            call = xh.parse_call(detail)
            ok = False
            if call:
                kind, val = xh.call_harness(PREAMBLE, h, call[1], call[2])
                ok = (kind == "exc") or (val is False)
            if ok:
                st.ob("refuted", key=okey)
                st.violation("%s:%s" % (h.meta["container"], h.meta["ops"][-1] if h.meta["ops"] else ""),
                             "%s after operations %s with data %s: %s" % (h.meta["container"], h.meta["ops"], call[1:],
                                                                          "raised %r" % val if kind == "exc" else "differs from the model"),
                             {"kind": "xh", "harness": h.source, "name": h.name, "args": list(call[1]), "kwargs": call[2]})
            else:
                st.ob("inconclusive", key=okey, note="counterexample did not replay: %s" % detail[:100])
    for cont in ("OrderedSet", "UHeap", "BitVector"):
        for h in hs:
            if h.meta["container"] == cont and len(h.meta["ops"]) >= 3:
                st["samples"].append({"harness": h.source})
                break
    st["solver_time"] += cpu
    st["queries"] += len(hs)
    st["programs"] = len(hs)
    run.merge(st)
    run.bounds = {"crosshair_conditions": len(hs), "per_condition_timeout_s": timeout}
    run.extra["rule"] = "one obligation per operation-kind sequence (CrossHair condition)"
    return run.finish()


def replay(obj):
    h = xh.Harness(obj["name"], obj["harness"])
    kind, val = xh.call_harness(PREAMBLE, h, obj["args"], obj.get("kwargs") or {})
    return kind == "exc" or val is False

"""C30 Invalid probability annotations are rejected (E5 leaf + E1 weight-domain forking)."""
import random
from fractions import Fraction

import z3

from problog.constraint import ConstraintAD
from problog.errors import InvalidValue
from problog.evaluator import SemiringProbability, SemiringLogProbability
from problog.logic import Term

from vlib import gen, refsem, semcheck, symsem, sym
from vlib.common import Run, Stats, pmap, short_hash

FUNCS = ["problog.evaluator.SemiringProbability.{value,in_domain}", "problog.constraint.ConstraintAD.update_weights",
         "problog.formula.BaseFormula.extract_weights", "whole pipeline with the out-of-range region (path forking)"]


# ------------------------------------------------------------------ leaf obligations (E5)
def leaf():
    st = Stats()
    # 1. value(v) raises InvalidValue for every v outside [0,1]
    for name, region in (("v<0", [z3.Real("p1") < 0]), ("v>1", [z3.Real("p1") > 1])):
        drv = sym.PathDriver(region, timeout_ms=10000)
        drv.params = {"p1": sym.param("p1", None)}
        paths = drv.explore(lambda: SemiringProbability().value(Term("p1")))
        ok = all(kind == "exc" and isinstance(val, InvalidValue) for pc, kind, val in paths)
        st.ob("proved" if ok else "refuted", key="leaf:value:" + name)
        st["solver_time"] += drv.solver_time
        st["queries"] += drv.queries
        if not ok:
            for pc, kind, val in paths:
                if not (kind == "exc" and isinstance(val, InvalidValue)):
                    s = z3.Solver()
                    s.add(*region)
                    s.add(*pc)
                    s.check()
                    v = symsem.model_values(s.model(), ["p1"])["p1"]
                    try:
                        SemiringProbability().value(_Num(float(v)))
                        st.violation("leaf:value:%s" % name, "SemiringProbability.value(%s) does not raise "
                                     "InvalidValue" % float(v), {"kind": "leaf-value", "v": float(v)})
                    except InvalidValue:
                        st.harness_error("leaf value model did not replay: %s" % float(v))
    # 2. value(v) accepts every v in [0,1] (no false rejection) - sanity / vacuity guard
    drv = sym.PathDriver([z3.Real("p1") >= 0, z3.Real("p1") <= 1], timeout_ms=10000)
    drv.params = {"p1": sym.param("p1", None)}
    paths = drv.explore(lambda: SemiringProbability().value(Term("p1")))
    ok = all(kind == "ok" for pc, kind, val in paths)
    st.ob("proved" if ok else "refuted", key="leaf:value:in-range")
    if not ok:
        st.violation("leaf:value:in-range", "SemiringProbability.value rejects a value inside [0,1]",
                     {"kind": "leaf-value-in"})
    # 3. update_weights raises for every weight vector with sum > 1 (k = 2..4 heads)
    for k in (2, 3, 4):
        ps = ["p%d" % (i + 1) for i in range(k)]
        region = [z3.Real(p) > 0 for p in ps] + [z3.Real(p) < 1 for p in ps] + \
                 [z3.Sum([z3.Real(p) for p in ps]) > 1]
        drv = sym.PathDriver(region, timeout_ms=10000)
        drv.params = dict((p, sym.param(p)) for p in ps)

        def call():
            c = ConstraintAD((0, ()))
            c.nodes = set(range(1, k + 1))
            c.extra_node = k + 1
            sr = SemiringProbability()
            w = dict((i + 1, (drv.params[p], 1.0 - drv.params[p])) for i, p in enumerate(ps))
            c.update_weights(w, sr)
            return w
        paths = drv.explore(call)
        ok = all(kind == "exc" and isinstance(val, InvalidValue) for pc, kind, val in paths)
        st.ob("proved" if ok else "refuted", key="leaf:update_weights:%d" % k)
        st["solver_time"] += drv.solver_time
        st["queries"] += drv.queries
        if not ok:
            st.violation("leaf:update_weights:%d" % k, "ConstraintAD.update_weights accepts weights with sum > 1",
                         {"kind": "leaf-update-weights", "k": k})
    return st


class _Num(object):
    location = None

    def __init__(self, v):
        self.v = v

    def __float__(self):
        return self.v

    def __str__(self):
        return str(self.v)


# ------------------------------------------------------------------ pipeline obligations (E1)
def grounded_params(text):
    """parameters whose annotation is a weight of the compiled formula the evaluator works on (the annotations that inference evaluates)"""
    from problog import get_evaluatable
    from problog.program import PrologString
    lf = get_evaluatable("ddnnf").create_from(PrologString(text))
    out = set()
    for k, w in lf.get_weights().items():
        s_ = str(w)
        if symsem.PARAM_RE.match(s_):
            out.add(s_)
    return out


def relevant_groups(prog):
    """parameter groups (ground AD / fact instances) with at least one annotation in the real ground program"""
    G = refsem.ground(prog)
    text = gen.program_text(prog)
    gp = grounded_params(text)
    out = []
    for g in G.groups:
        ps = [pr for pr, _ in g.heads]
        if all(pr[:1] == "p" for pr in ps) and any(pr in gp for pr in ps):
            out.append(ps)
    return out, G, gp


def work(item):
    if item == "leaf":
        return leaf()
    name, prog = item
    st = Stats()
    st["programs"] = 1
    text = gen.program_text(prog)
    pkey = short_hash(text)
    try:
        rel, G, gp = relevant_groups(prog)
    except Exception as e:
        st.ob("inconclusive", note="reference grounding failed: %s" % e)
        return st
    if refsem.negative_cycle_atoms(G) or not rel:
        return st
    params = symsem.find_params(text)
    all_groups = gen.ad_groups_of(prog)
    rng = random.Random(name)
    cases = []
    g = rng.choice(rel)
    bad = rng.choice([p for p in g if p in gp])
    cases.append(("%s<0" % bad, [bad], [z3.Real(bad) < 0]))
    cases.append(("%s>1" % bad, [bad], [z3.Real(bad) > 1]))
    multi = [g for g in rel if len(g) > 1]
    if multi:
        g = rng.choice(multi)
        cases.append(("sum(%s)>1" % ",".join(g), g, [z3.Sum([z3.Real(p) for p in g]) > 1] +
                      [z3.Real(p) > 0 for p in g] + [z3.Real(p) < 1 for p in g]))
    if len(st["samples"]) < 1:
        st["samples"].append({"name": name, "program": text, "cases": [c[0] for c in cases]})
    for cname, badps, cons in cases:
        region = list(cons)
        for p in params:
            if p not in badps:
                region += [z3.Real(p) > 0, z3.Real(p) < 1]
        for gg in all_groups:
            if len(gg) > 1 and not set(gg) & set(badps):
                region.append(z3.Sum([z3.Real(p) for p in gg]) < 1)
        okey = "pipe:%s:%s" % (pkey, cname)
        try:
            outs, drv = symsem.run_real(text, params, region=region, max_paths=24, param_sign=None)
            st["solver_time"] += drv.solver_time
            st["queries"] += drv.queries
        except (sym.Unsupported, sym.Inconclusive) as e:
            st.ob("inconclusive", key=okey, note="forking: %s" % e)
            continue
        # errors the VALID program raises as well (inconsistent evidence, negative cycle) are not the annotation's business
        from vlib import diffcheck
        bkind, bres = symsem.run_float(symsem.substitute_params(text, diffcheck.default_values(params, all_groups)))
        base_err = type(bres).__name__ if bkind == "error" else None

        def rejected(kind_, err):
            return kind_ == "error" and (isinstance(err, InvalidValue) or (base_err is not None and type(err).__name__ == base_err))
        bad_out = [o for o in outs if not rejected(o.kind, o.error)]
        if not bad_out:
            st.ob("proved", key=okey)
            continue
        o = bad_out[0]
        s = z3.Solver()
        s.set("timeout", 10000)
        s.add(*region)
        s.add(*o.pc)
        if str(s.check()) != "sat":
            st.ob("inconclusive", key=okey, note="no witness for non-rejecting path")
            continue
        vals = symsem.model_values(s.model(), params)
        kind, res = symsem.run_float(symsem.substitute_params(text, vals))
        if rejected(kind, res):
            st.ob("inconclusive", key=okey, note="witness of a non-rejecting symbolic path is rejected concretely (%s)" % cname)
            continue
        st.ob("refuted", key=okey)
        if cname.startswith("sum"):
            sg = sum(vals[p] for p in badps if p in gp)
            if sg <= 1:
                key = "ad-sum>1:excess-only-with-ungrounded-heads"
            else:
                key = "ad-sum>1:grounded-heads-exceed-one:%s:%s" % ("answers" if kind == "ok" else type(res).__name__, pkey)
        else:
            key = "range:%s:%s" % ("answers" if kind == "ok" else type(res).__name__, pkey)
        st.violation(key, "annotation case %s: inference %s instead of raising InvalidValue (values %s)" % (
                         cname, "returned %s" % res if kind == "ok" else "raised %s" % type(res).__name__,
                         dict((k, str(v)) for k, v in vals.items())),
                     {"kind": "c30", "ast": prog, "program": text,
                      "values": dict((k, str(v)) for k, v in vals.items())})
    return st


def main(tier, seed):
    run = Run("C30", tier, seed, "other",
              "leaf: the real SemiringProbability.value and ConstraintAD.update_weights executed on symbolic "
              "reals over the whole out-of-range region (every path must raise InvalidValue). pipeline: the real "
              "inference pipeline with one relevant annotation symbolic in the invalid region; the weight-domain "
              "path driver explores every branch and each must end in InvalidValue; a non-rejecting path yields a "
              "solver witness that is replayed with the default semirings")
    run.level = "other"
    run.functions = FUNCS
    run.assumptions = ["floats as reals; the 1e-9 acceptance band is read as an infinitesimal",
                       "only annotations inside the dependency cone of a query/evidence atom are required to be "
                       "rejected (an irrelevant invalid annotation is never grounded)",
                       "log-probability semiring: value() shares the range test (C12 covers its algebra)"]
    items = ["leaf"]
    corp = [(n, p) for n, p in gen.corpus()]
    n = 40 if tier == "quick" else 600
    for i in range(n):
        corp.append(("gen/%d/%d" % (seed, i), gen.generate(seed, 27000 + i, max_choices=6)))
    items += corp
    run.bounds = {"skeletons": len(corp), "cases_per_skeleton": "one relevant annotation <0, >1, one AD sum>1",
                  "max_paths": 24}
    for st in pmap(work, items, item_timeout=90 if tier == "quick" else 600):
        run.merge(st)
    return run.finish()


def replay(obj):
    if obj.get("kind") != "c30":
        st = leaf()
        return bool(st["violations"])
    vals = dict((k, Fraction(v)) for k, v in obj["values"].items())
    kind, res = symsem.run_float(symsem.substitute_params(obj["program"], vals))
    return not (kind == "error" and isinstance(res, InvalidValue))

"""C19 findall/all in probabilistic programs follow the possible-world semantics (E1 + E2)."""
import random
import re

import z3

from vlib import gen, refsem, symsem, sym
from vlib.common import Run, Stats, pmap, short_hash
from vlib.gen import A, P, N

FUNCS = ["problog.engine_builtin._builtin_findall_base / _builtin_findall / _builtin_all / _select_sublist",
         "problog.formula.LogicFormula.enumerate_branches / copy_node (through findall)", "evaluation pipeline as in C01"]


def skeleton(rng):
    """(facts AST, clauses [(value, body)], evidence [(atom, bool)])"""
    nf = rng.randint(2, 4)
    facts = []
    atoms = []
    k = 0
    for i in range(nf):
        k += 1
        facts.append(("ad", [("p%d" % k, A("f%d" % i))], []))
        atoms.append(A("f%d" % i))
    if rng.random() < 0.35:
        heads = []
        for j in range(2):
            k += 1
            heads.append(("p%d" % k, A("h%d" % j)))
            atoms.append(A("h%d" % j))
        facts.append(("ad", heads, []))
    m = rng.randint(2, 5)
    clauses = []
    for _ in range(m):
        val = rng.choice(["a", "b", "c"])
        body = []
        for _ in range(rng.choice([0, 1, 1, 2, 2])):
            body.append((rng.choice(atoms), rng.random() < 0.3))
        body = [l for l in body if not l[1]] + [l for l in body if l[1]]
        clauses.append((val, body))
    evidence = []
    if rng.random() < 0.3:
        evidence.append((rng.choice(atoms), rng.random() < 0.5))
    return facts, clauses, evidence


def program_text(facts, clauses, evidence, pred):
    lines = [gen.stmt_str(s) for s in facts]
    for val, body in clauses:
        lines.append(gen.stmt_str(("rule", A("g", val), body)) if body else "g(%s)." % val)
    lines.append("q(L) :- %s(X, g(X), L)." % pred)
    for a, v in evidence:
        lines.append(gen.stmt_str(("evidence", a, v)))
    lines.append("query(q(L)).")
    return "\n".join(lines) + "\n"


def lkey(L, level):
    if level == "list":
        return tuple(L)
    if level == "multiset":
        return tuple(sorted(L))
    return tuple(sorted(set(L)))


def fkey(rep, default):
    if rep.startswith("ORDER-ONLY"):
        return "findall:order-differs-from-SLD"
    if rep.startswith("DUPLICATE-FOLDED"):
        return "findall:duplicates-folded"
    return default


def parse_list(key):
    m = re.match(r"^q\(\[(.*)\]\)$", key.replace(" ", ""))
    if not m:
        return None
    inner = m.group(1)
    return tuple(x for x in inner.split(",") if x)


def work(item):
    name, seedstr = item
    rng = random.Random(seedstr)
    facts, clauses, evidence = skeleton(rng)
    st = Stats()
    st["programs"] = 1
    # reference: one auxiliary atom per clause (its body), evaluated in every world
    prog = list(facts)
    saux = []
    for j, (val, body) in enumerate(clauses):
        s = A("s%d" % j)
        saux.append(s)
        prog.append(("rule", s, list(body)) if body else ("fact", s))
    G = refsem.ground(prog)
    tabs = refsem.truth_table(G, saux + [a for a, _ in evidence])
    nworlds = refsem.world_count(G)
    e_tab = [True] * nworlds
    for a, v in evidence:
        ta = tabs.get(a) or [False] * nworlds
        e_tab = [x and (y if v else not y) for x, y in zip(e_tab, ta)]
    lists = []
    for w in range(nworlds):
        lists.append(tuple(val for (val, _), s in zip(clauses, saux) if tabs[s][w]))
    params = sorted(set(pr for g in G.groups for pr, _ in g.heads), key=lambda s: int(s[1:]))
    groups = [[pr for pr, _ in g.heads] for g in G.groups]
    region = symsem.default_region(params, groups)
    legal = refsem.legal_constraints(G)
    pv = symsem.Prover(region, 20000)
    Z_poly, Z_fun = refsem.poly_of_table(G, e_tab)
    for pred in ("findall", "all"):
        text = program_text(facts, clauses, evidence, pred)
        pkey = short_hash(text)
        if len(st["samples"]) < 1:
            st["samples"].append({"name": name, "program": text})
        # expected events
        if pred == "findall":
            events = {}
            for w, L in enumerate(lists):
                events.setdefault(L, [False] * nworlds)[w] = e_tab[w]
            keyf = lambda L: L
        else:
            events = {}
            for w, L in enumerate(lists):
                if L:
                    events.setdefault(frozenset(L), [False] * nworlds)[w] = e_tab[w]
            keyf = lambda L: frozenset(L)
        try:
            outs, drv = symsem.run_real(text, params, region=region, timeout_ms=20000)
            st["solver_time"] += drv.solver_time
            st["queries"] += drv.queries
        except (sym.Unsupported, sym.Inconclusive) as e:
            st.ob("inconclusive", note="real route: %s" % e)
            continue
        try:
            bout, bsr = symsem.run_bool(text, legal)
        except (sym.Unsupported, sym.Inconclusive) as e:
            bout = None
        for out in outs:
            if out.kind == "error":
                from problog.errors import InconsistentEvidenceError
                if isinstance(out.error, InconsistentEvidenceError) and not any(e_tab):
                    st.ob("proved", key="incons:" + pkey)
                    continue
                st.ob("refuted", key="err:" + pkey)
                st.violation("error:%s" % type(out.error).__name__, "%s program raised %s: %s" % (pred, type(out.error).__name__, out.error),
                             {"program": text, "pred": pred, "values": {}, "seed": seedstr})
                continue
            seen = {}
            for k, (num, den) in out.results.items():
                L = parse_list(k)
                if L is None:
                    # a non-ground q(L) line with probability 0 (no answer)
                    v, _ = pv.frac_equal((num, den), (z3.RealVal(0), None), extra=list(out.pc))
                    st.ob("proved" if v == "proved" else "inconclusive", key="nonground:" + pkey)
                    continue
                ev = keyf(L)
                okey = "%s:%s:%s" % (pred, pkey, ",".join(L))
                if pred == "all" and not L:
                    tab = [False] * nworlds      # the empty list must not be reported with mass
                elif ev in seen:
                    # two reported lists for one solution set: both cannot carry the mass -> second must be 0
                    tab = [False] * nworlds
                else:
                    tab = events.get(ev, [False] * nworlds)
                    seen[ev] = L
                poly, fun = refsem.poly_of_table(G, tab)
                v, m = pv.frac_equal((num, den), (poly, Z_poly), extra=list(out.pc))
                if v == "proved":
                    st.ob("proved", key=okey)
                elif v == "refuted":
                    vals = symsem.model_values(m, params)
                    rep = replay_one(text, pred, seedstr, vals)
                    if rep:
                        st.ob("refuted", key=okey)
                        st.violation(fkey(rep, "%s:value" % pred),
                                     "%s: list [%s]: %s" % (pred, ",".join(L), rep),
                                     {"program": text, "pred": pred, "values": dict((a, str(b)) for a, b in vals.items()), "seed": seedstr})
                    else:
                        st.harness_error("C19 model did not replay: %s list %s values %s" % (text, L, vals))
                else:
                    st.ob("inconclusive", key=okey, note="z3 unknown")
            # findall, multiset level (holds also where the order inside the list deviates from SLD order):
            # the lists that are permutations of one multiset together carry exactly its probability
            for level in (("multiset", "set") if pred == "findall" else ()):
                byms = {}
                for k, (num, den) in out.results.items():
                    L = parse_list(k)
                    if L is not None:
                        byms.setdefault(lkey(L, level), []).append((num, den))
                ms_events = {}
                for w, L in enumerate(lists):
                    ms_events.setdefault(lkey(L, level), [False] * nworlds)[w] = e_tab[w]
                for ms in sorted(set(byms) | set(ms_events)):
                    parts = byms.get(ms, [])
                    tab = ms_events.get(ms, [False] * nworlds)
                    poly, fun = refsem.poly_of_table(G, tab)
                    okey = "findall-%s:%s:%s" % (level, pkey, ",".join(ms))
                    if not parts:
                        num, den = z3.RealVal(0), None
                    else:
                        den = parts[0][1]
                        same_den = all((d is None and den is None) or (d is not None and den is not None and
                                       pv.frac_equal((d, None), (den, None), extra=list(out.pc))[0] == "proved") for _, d in parts)
                        if not same_den:
                            st.ob("inconclusive", key=okey, note="different normalisation terms")
                            continue
                        num = z3.Sum([n for n, _ in parts]) if len(parts) > 1 else parts[0][0]
                    v, m = pv.frac_equal((num, den), (poly, Z_poly), extra=list(out.pc))
                    if v == "proved":
                        st.ob("proved", key=okey)
                    elif v == "refuted":
                        vals = symsem.model_values(m, params)
                        rep = _replay_one(text, pred, seedstr, vals, level=level)
                        if rep:
                            st.ob("refuted", key=okey)
                            full = replay_one(text, pred, seedstr, vals) or rep
                            st.violation(fkey(full, "findall:%s-value" % level), "findall: solutions {%s}: %s" % (",".join(ms), rep),
                                         {"program": text, "pred": pred, "values": dict((a, str(b)) for a, b in vals.items()), "seed": seedstr})
                        else:
                            st.harness_error("C19 multiset model did not replay: %s %s %s" % (text, ms, vals))
                    else:
                        st.ob("inconclusive", key=okey, note="z3 unknown")
            # every event with positive probability must be reported
            for ev, tab in events.items():
                if ev in seen or (pred == "all" and not ev):
                    continue
                poly, fun = refsem.poly_of_table(G, tab)
                okey = "%s:unrep:%s:%s" % (pred, pkey, ",".join(sorted(ev)) if pred == "all" else ",".join(ev))
                r, m = pv.check(poly != 0, extra=list(out.pc))
                if r == "unsat":
                    st.ob("proved", key=okey)
                elif r == "sat":
                    vals = symsem.model_values(m, params)
                    rep = replay_one(text, pred, seedstr, vals)
                    if rep:
                        st.ob("refuted", key=okey)
                        st.violation(fkey(rep, "%s:unreported" % pred),
                                     "%s: solution list %s has positive probability but is not reported :: %s" % (
                            pred, sorted(ev) if pred == "all" else list(ev), rep),
                            {"program": text, "pred": pred, "values": dict((a, str(b)) for a, b in vals.items()), "seed": seedstr})
                    else:
                        st.harness_error("C19 unreported-list model did not replay: %s %s" % (text, vals))
                else:
                    st.ob("inconclusive", key=okey)
        # world route: reported findall lists as Boolean functions of the choices
        if bout is not None and bout.kind == "ok" and pred == "findall":
            for k, (num, den) in bout.results.items():
                L = parse_list(k)
                if L is None:
                    continue
                tab = events.get(L, [False] * nworlds)
                poly, fun = refsem.poly_of_table(G, tab)
                r, m = pv.check(z3.Xor(num, fun), extra=legal + [Z_fun] + ([den] if den is not None else []))
                st.ob("proved" if r == "unsat" else "inconclusive" if r != "sat" else "refuted", key="bool:%s:%s" % (pkey, k))
                if r == "sat":
                    rep = replay_one(text, pred, seedstr, {})
                    if rep:
                        st.violation(fkey(rep, "findall:world"),
                                     "findall list %s: circuit and reference disagree in a world :: %s" % (k, rep),
                                     {"program": text, "pred": pred, "values": {}, "seed": seedstr})
    st["solver_time"] += pv.solver_time
    st["queries"] += pv.queries
    return st


def replay_one(text, pred, seedstr, vals):
    """Concrete run with the default semirings against exact enumeration; returns a description or None.
    For findall the description starts with 'ORDER-ONLY' when every multiset of solutions has the right
    probability and only the order inside the reported lists differs from the SLD order."""
    r = _replay_one(text, pred, seedstr, vals, level="list")
    if r and pred == "findall" and _replay_one(text, pred, seedstr, vals, level="multiset") is None:
        return "ORDER-ONLY " + r
    if r and pred == "findall" and _replay_one(text, pred, seedstr, vals, level="set") is None:
        return "DUPLICATE-FOLDED " + r
    return r


def merge_complementary(clauses):
    """The clause list ProbLog effectively uses: two clauses for the same answer whose bodies are the single
    complementary literals x and \\+x are folded into one always-true proof (known finding)."""
    out = list(clauses)
    changed = False
    for i, (v1, b1) in enumerate(out):
        if b1 is None or len(b1) != 1:
            continue
        for j in range(i + 1, len(out)):
            v2, b2 = out[j]
            if b2 is not None and v2 == v1 and len(b2) == 1 and b2[0][0] == b1[0][0] and b2[0][1] != b1[0][1]:
                out[i] = (v1, [])
                out[j] = (v2, None)      # dropped
                changed = True
                break
    return [(v, b) for v, b in out if b is not None], changed


def _replay_one(text, pred, seedstr, vals, level="list", transform=None):
    from fractions import Fraction
    rng = random.Random(seedstr)
    facts, clauses, evidence = skeleton(rng)
    if transform is not None:
        clauses = transform(clauses)
    prog = list(facts)
    saux = []
    for j, (val, body) in enumerate(clauses):
        s = A("s%d" % j)
        saux.append(s)
        prog.append(("rule", s, list(body)) if body else ("fact", s))
    G = refsem.ground(prog)
    tabs = refsem.truth_table(G, saux + [a for a, _ in evidence])
    n = refsem.world_count(G)
    e_tab = [True] * n
    for a, v in evidence:
        ta = tabs.get(a) or [False] * n
        e_tab = [x and (y if v else not y) for x, y in zip(e_tab, ta)]
    vals = dict((k, Fraction(v)) for k, v in vals.items())
    for g in G.groups:
        for pr, _ in g.heads:
            vals.setdefault(pr, Fraction(1, 4))
    pe = refsem.exact_probability(G, e_tab, vals)
    exp = {}
    for w in range(n):
        L = tuple(val for (val, _), s in zip(clauses, saux) if tabs[s][w])
        key = lkey(L, level) if pred == "findall" else frozenset(L)
        if pred == "all" and not L:
            continue
        t = exp.setdefault(key, [False] * n)
        t[w] = e_tab[w]
    kind, res = symsem.run_float(symsem.substitute_params(text, vals))
    if kind == "error":
        from problog.errors import InconsistentEvidenceError
        if isinstance(res, InconsistentEvidenceError) and pe == 0:
            return None
        return "raised %s: %s" % (type(res).__name__, res)
    if pe == 0:
        return "answered although the evidence has probability 0"
    got = {}
    for k, v in res.items():
        L = parse_list(k)
        if L is None:
            continue
        key = lkey(L, level) if pred == "findall" else frozenset(L)
        if pred == "all" and key in got and v > 1e-9 and got[key] > 1e-9:
            return "solution set %s reported twice with mass" % (sorted(key),)
        got[key] = (got.get(key, 0.0) + v) if pred == "findall" else max(got.get(key, 0.0), v)
    for key, tab in exp.items():
        p = float(refsem.exact_probability(G, tab, vals) / pe)
        if abs(got.get(key, 0.0) - p) > 1e-7:
            return "list %s: problog %.8f, possible-world semantics %.8f at %s" % (
                list(key) if pred == "findall" else sorted(key), got.get(key, 0.0), p, dict((k, str(v)) for k, v in vals.items()))
    for key, v in got.items():
        if key not in exp and v > 1e-7:
            return "list %s reported with %.8f but never the solution list of a world" % (list(key) if pred == "findall" else sorted(key), v)
    return None


def main(tier, seed):
    run = Run("C19", tier, seed, "translation_validation",
              "each skeleton (probabilistic facts / one AD, 2-5 clauses g(v) :- body, optional evidence) is run through the "
              "real pipeline with symbolic weights for q(L) :- findall(X,g(X),L) and all/3; z3 proves that every reported "
              "list has exactly the probability (as a function of all parameter values) of the worlds whose SLD-ordered "
              "solution list is that list, that unreported lists have probability 0, and agreement in every world")
    run.functions = FUNCS
    run.assumptions = ["skeletons enumerated (seeded); clause bodies are conjunctions of (negated) probabilistic atoms, so every "
                       "solution has one derivation and the SLD order is the clause order",
                       "all/3: asserted at the level of solution SETS (non-empty; the documented behaviour eliminates "
                       "duplicates) - the order inside an all/3 list is not asserted", "floats as reals; reference = vlib/refsem.py"]
    n = 120 if tier == "quick" else 3000
    items = [("fa/%d/%d" % (seed, i), "c19/%s/%s" % (seed, i)) for i in range(n)]
    run.bounds = {"skeletons": n, "max_clauses": 5, "max_choices": 5}
    for st in pmap(work, items, item_timeout=120):
        run.merge(st)
    return run.finish()


def replay(obj):
    from fractions import Fraction
    vals = dict((k, Fraction(v)) for k, v in (obj.get("values") or {}).items())
    return bool(replay_one(obj["program"], obj["pred"], obj["seed"], vals))

"""C14 Unification is sound and complete syntactic unification (E4: CrossHair over variable identities)."""
import itertools
import random

from vlib import xh
from vlib.common import Run, Stats, short_hash

FUNCS = ["problog.engine_unify.unify_value", "problog.engine_unify._occurs_in", "problog.engine_builtin._builtin_eq / _builtin_neq",
         "problog.engine_unify.unify_call_head / _unify_call_head_single / substitute_all",
         "problog.logic.Term.{with_args,variables,signature}"]

PREAMBLE = """
from problog.logic import Term, Constant
from vlib import unify_ref as U
"""

# leaf constructors: text of a Python expression; 'V' marks a variable slot, 'N' the anonymous variable
ATOMS = ["Term('a')", "Term('b')", "Constant(1)", "Constant(2)", "Constant(1.0)", "Term(\"'a'\")", "Constant('\"a\"')",
         "Term('[]')"]


def shapes(depth2=True):
    """Term skeletons up to depth 2 over {var, anonymous, atoms, ints, float, quoted atom, string, f/1, g/2, list}."""
    leaves = ["V", "N"] + ATOMS
    few = ["V", "N", "Term('a')", "Constant(1)"]
    out = list(leaves)
    for x in leaves:
        out.append("Term('f', %s)" % x)
    for x, y in itertools.product(few + ["Term('b')"], repeat=2):
        out.append("Term('g', %s, %s)" % (x, y))
    if depth2:
        for x in ["V", "Term('a')"]:
            out.append("Term('f', Term('f', %s))" % x)
        for x, y in itertools.product(["V", "N", "Term('a')"], repeat=2):
            out.append("Term('g', %s, Term('f', %s))" % (x, y))
            out.append("Term('g', Term('f', %s), %s)" % (x, y))
        for x, y, z in itertools.product(["V", "Term('a')"], repeat=3):
            out.append("Term('g', Term('g', %s, %s), %s)" % (x, y, z))
            out.append("Term('.', %s, Term('.', %s, %s))" % (x, y, z if z != "Term('a')" else "Term('[]')"))
    return out


def fill(shape, names):
    """Replace the i-th 'V' by names[i]; 'N' by None."""
    out, i, k = "", 0, 0
    toks = []
    j = 0
    res = []
    import re
    parts = re.split(r"\b(V|N)\b", shape)
    for p in parts:
        if p == "V":
            res.append(names[k])
            k += 1
        elif p == "N":
            res.append("None")
        else:
            res.append(p)
    return "".join(res), k


def nvars(shape):
    import re
    return len(re.findall(r"\bV\b", shape))


def make_harness(idx, kind, s1, s2, dom):
    k1, k2 = nvars(s1), nvars(s2)
    k = k1 + k2
    names = ["v%d" % (i + 1) for i in range(k)]
    if kind == "head":
        # head variables are clause-context positions 0..k2-1 (symbolic too), call variables negative ids
        t1, _ = fill(s1, names[:k1])
        t2, _ = fill(s2, names[k1:])
        pre = " and ".join(["-%d <= %s <= -1" % (dom, n) for n in names[:k1]] +
                           ["0 <= %s <= %d" % (n, max(0, min(dom, k2) - 1)) for n in names[k1:]]) or "True"
        body = "    return U.check_call_head([%s], [%s], %d)" % (t1, t2, max(1, min(dom, k2)))
    else:
        t1, _ = fill(s1, names[:k1])
        t2, _ = fill(s2, names[k1:])
        pre = " and ".join("-%d <= %s <= -1" % (dom, n) for n in names) or "True"
        fn = {"value": "check_unify_value", "eq": "check_eq_neq"}[kind]
        body = "    return U.%s(%s, %s)" % (fn, t1, t2)
    name = "h_%s_%d" % (kind, idx)
    sig = ", ".join("%s: int" % n for n in names)
    src = 'def %s(%s) -> str:\n    """\n    pre: %s\n    post: _ == ""\n    """\n%s\n' % (name, sig, pre, body)
    return xh.Harness(name, src, {"kind": kind, "t1": s1, "t2": s2, "vars": k, "domain": dom})


def harnesses(tier, seed):
    S = shapes()
    rng = random.Random("c14/%s" % seed)
    pairs = []
    core = [s for s in S if nvars(s) > 0 or s in ("Term('a')", "Constant(1)", "Term(\"'a'\")", "Constant(1.0)")]
    allpairs = [(a, b) for a in S for b in S if 1 <= nvars(a) + nvars(b) <= 4]
    ground_pairs = [(a, b) for a in S for b in S if nvars(a) + nvars(b) == 0]
    if tier == "quick":
        # the interesting region: both sides compound with variables; plus a seeded sample of the rest
        rich = [(a, b) for a, b in allpairs if nvars(a) >= 1 and nvars(b) >= 1 and ("Term('g'" in a or "Term('.'" in a)]
        rng.shuffle(rich)
        rest = [p for p in allpairs if p not in set(rich[:90])]
        rng.shuffle(rest)
        core = ["V", "Term('f', V)", "Term('g', V, V)", "Term('g', V, Term('f', V))", "Term('g', Term('f', V), V)",
                "Term('g', V, Term('a'))", "Term('f', Term('f', V))", "Term('.', V, Term('.', V, V))"]
        fixed = [(a, b) for a in core for b in core if 1 <= nvars(a) + nvars(b) <= 4]
        pairs = fixed + [p for p in rich[:70] + rest[:70] if p not in set(fixed)]
    else:
        # thorough: a seeded third of all pairs (the full set is ~11 600 conditions; sized to ~20 minutes of wall time)
        rng.shuffle(allpairs)
        pairs = allpairs[: len(allpairs) // 3]
    hs = []
    i = 0
    for a, b in pairs:
        k = nvars(a) + nvars(b)
        dom = min(k, 3) if (tier == "quick" and k <= 3) else (2 if tier == "quick" else min(k, 4))
        hs.append(make_harness(i, "value", a, b, dom))
        i += 1
        if i % 3 == 0 or tier == "thorough":
            hs.append(make_harness(i, "eq", a, b, dom))
            i += 1
        if (i % 2 == 0 or tier == "thorough") and "N" not in a + b:
            hs.append(make_harness(i, "head", a, b, dom))
            i += 1
    return hs, ground_pairs


def ground_check(st, pairs):
    """Ground pairs have no symbolic dimension: evaluated concretely (reported separately)."""
    ns = {}
    exec(PREAMBLE, ns)
    U = ns["U"]
    bad = 0
    for a, b in pairs:
        t1, t2 = eval(fill(a, [])[0], ns), eval(fill(b, [])[0], ns)
        for fn in (U.check_unify_value, U.check_eq_neq):
            r = fn(t1, t2)
            if r:
                bad += 1
                st.violation("ground:%s" % fn.__name__, "%s vs %s: %s" % (a, b, r),
                             {"kind": "ground", "t1": a, "t2": b, "fn": fn.__name__})
    return bad



# ---- engine level: the answer substitution of =/2 as the caller sees it (through unify_call_return) ----------------
E_TERMS = ["X", "Y", "Z", "W", "a", "b", "f(X)", "f(Y)", "f(a)", "f(f(Z))", "f(W)", "g(X,Y)", "g(X,X)", "g(Z,Z)", "g(X,f(Y))", "g(f(Y),Y)",
           "g(Z,a)", "g(a,Z)", "g(W,W)", "g(f(X),f(W))", "h(X,f(Y),Y)", "h(Z,Z,a)", "h(X,Y,Z)", "h(f(Z),X,Y)", "h(W,f(W),Z)", "h(X,X,X)",
           "[X|Y]", "[a,Z]", "[X,Y|Z]", "[W|W]"]


def _tree(name, items):
    lines = ["def %s(j):" % name]

    def rec(lo, hi, ind):
        if hi - lo == 1:
            lines.append('%sreturn "%s"' % (ind, items[lo]))
            return
        mid = (lo + hi) // 2
        lines.append("%sif j < %d:" % (ind, mid))
        rec(lo, mid, ind + "    ")
        rec(mid, hi, ind)
    rec(0, len(items), "    ")
    return "\n".join(lines) + "\n"


E_PREAMBLE = """
from problog.program import PrologString
from problog.engine import DefaultEngine
from problog.logic import Term, Var, Constant
from problog.engine_unify import OccursCheck
from vlib import unify_ref as U
try:
    from crosshair.tracers import NoTracing
except ImportError:
    import contextlib
    NoTracing = contextlib.nullcontext

""" + _tree("ET", E_TERMS) + """

VMAP = {'X': -1, 'Y': -2, 'Z': -3, 'W': -4}


def conv(t):
    if isinstance(t, Var):
        return VMAP[t.name]
    return t.with_args(*[conv(a) for a in t.args])


FRZ = \"\"\"
frz(V,N,N1) :- var(V), V = v(N), N1 is N+1.
frz(T,N,N1) :- nonvar(T), T =.. [_|As], frzl(As,N,N1).
frzl([],N,N).
frzl([A|As],N,N2) :- frz(A,N,N1), frzl(As,N1,N2).
\"\"\"


def freeze(ts):
    \"\"\"reference: number the variables of the terms by first occurrence (depth first), as frz/3 does\"\"\"
    names = {}

    def walk(t):
        if isinstance(t, int):
            if t not in names:
                names[t] = Term('v', Constant(len(names)))
            return names[t]
        return t.with_args(*[walk(a) for a in t.args])
    return [walk(t) for t in ts]


def answer_ok(t1s, t2s, form):
    \"\"\"'' or what differs between the bindings the caller of =/2 sees and the most general unifier\"\"\"
    with NoTracing():
        tail = ", frz(q(X,Y,Z),0,_)." + FRZ
        if form == 0:
            text = "q(X,Y,Z) :- %s = %s" % (t1s, t2s) + tail
        elif form == 1:
            text = "q(X,Y,Z) :- e(%s, %s)" % (t1s, t2s) + tail + " e(A,A)."
        elif form == 2:
            text = "q(X,Y,Z) :- A = %s, B = %s, A = B" % (t1s, t2s) + tail
        else:
            # the answer of a non-ground top-level query, as engine.query returns it
            text = "q(X,Y,Z) :- %s = %s." % (t1s, t2s)
        db = DefaultEngine().prepare(PrologString(text))
        try:
            res = DefaultEngine().query(db, Term('q', None, None, None))
        except OccursCheck:
            res = None
        t1, t2 = conv(Term.from_string(t1s)), conv(Term.from_string(t2s))
        try:
            sub = U.ref_unify(t1, t2, {})
            ref = [U.resolve(v, sub) for v in (-1, -2, -3)]
        except U.NoUnifier:
            ref = None
        if res is None:
            return "" if ref is None else "OccursCheck raised although an mgu exists: " + text.split(chr(10))[0]
        if ref is None:
            return "" if len(res) == 0 else "answered %s although the terms do not unify: %s" % (res, text.split(chr(10))[0])
        if len(res) != 1:
            return "%d answers for %s" % (len(res), text.split(chr(10))[0])
        if form == 3:
            if not U.variant(Term('q', *res[0]), Term('q', *ref)):
                return "top-level answer q%s is not the most general unifier q%s of %s" % (tuple(res[0]), tuple(ref), text)
        elif Term('q', *res[0]) != Term('q', *freeze(ref)):
            return "bindings q%s, most general unifier q%s (variables numbered by first occurrence): %s" % (
                tuple(res[0]), tuple(freeze(ref)), text.split(chr(10))[0])
    return ""
"""


def engine_harnesses(tier):
    hs = []
    n = len(E_TERMS)
    for form in (0, 1, 2, 3):
        for i, t1 in enumerate(E_TERMS):
            if tier == "quick" and form != 0 and i % 4 != form:
                continue
            name = "h_eng_%d_%d" % (form, i)
            src = ('def %s(j: int) -> str:\n    """\n    pre: 0 <= j < %d\n    post: _ == ""\n    """\n    return answer_ok("%s", ET(j), %d)\n'
                   % (name, n, t1, form))
            hs.append(xh.Harness(name, src, {"kind": "engine-answer", "t1": t1, "t2": "*", "domain": form}))
    return hs


def main(tier, seed):
    run = Run("C14", tier, seed, "other",
              "one CrossHair condition per (term-shape pair, entry point): the variable identities at the leaves are "
              "symbolic ints; the postcondition compares the real unify_value / =, \\= / clause-head resolution with a "
              "reference Robinson unifier (success iff mgu exists, bindings are a unifier, most general up to renaming, "
              "never cyclic). 'Confirmed over all paths' = holds for every identity pattern within the id domain.")
    run.functions = FUNCS
    hs, ground_pairs = harnesses(tier, seed)
    timeout = 12 if tier == "quick" else 60
    run.assumptions = ["term shapes (depth <= 2 over atoms, ints, float, quoted atom, string, f/1, g/2, list cells) are "
                       "enumerated; quick tier: seeded sample of shape pairs",
                       "variable identities range over a domain of min(#variable leaves, 3) ids (2 ids for 4 leaves in the "
                       "quick tier; up to 4 in the thorough tier); constants are concrete",
                       "reference: vlib/unify_ref.py (Robinson with occurs check); 'same symbol' is ProbLog's own "
                       "signature equality (a quoted atom 'a' and a are the same symbol)",
                       "CrossHair 'Not confirmed' / timeouts are inconclusive, never counted as held",
                       "ground shape pairs carry no symbolic dimension and are evaluated concretely",
                       "engine level: for 30 term texts on each side (selector-chosen right-hand side, concrete per path, engine run untraced) "
                       "the answer of q(X,Y,Z) :- T1 = T2 (also through a clause e(A,A) and through A = T1, B = T2, A = B) must be the most "
                       "general unifier up to renaming: this is where unify_call_return carries the bindings of a call back to its caller"]
    st = Stats()
    res, cpu = xh.run(hs, PREAMBLE, per_condition_timeout=timeout)
    byname = dict((h.name, h) for h in hs)
    for name, (verdict, detail) in sorted(res.items()):
        h = byname[name]
        okey = "%s:%s:%s:%d" % (h.meta["kind"], h.meta["t1"], h.meta["t2"], h.meta["domain"])
        if verdict == "confirmed":
            st.ob("proved", key=okey)
        elif verdict == "inconclusive":
            st.ob("inconclusive", key=okey, note="%s (%s vs %s): %s" % (h.meta["kind"], h.meta["t1"], h.meta["t2"], detail[:80]))
        else:
            call = xh.parse_call(detail)
            rep = None
            if call:
                kind, val = xh.call_harness(PREAMBLE, h, call[1], call[2])
                if kind == "exc":
                    rep = "raised %s: %s" % (type(val).__name__, val)
                elif val != "":
                    rep = val
            if rep:
                st.ob("refuted", key=okey)
                cls = rep.split("(")[0].split("{")[0].strip()[:50]
                st.violation("%s:%s" % (h.meta["kind"], cls), "%s on %s vs %s with variables %s: %s" % (
                    h.meta["kind"], h.meta["t1"], h.meta["t2"], call[1:], rep),
                    {"kind": "xh", "harness": h.source, "name": h.name, "args": list(call[1]), "kwargs": call[2]})
            else:
                st.ob("inconclusive", key=okey, note="counterexample did not replay: %s" % detail[:120])
        if len(st["samples"]) < 4 and verdict == "confirmed":
            st["samples"].append({"harness": h.source})
    # engine level: answers of =/2 (three program forms) against the reference mgu
    ehs = engine_harnesses(tier)
    eres, ecpu = xh.run(ehs, E_PREAMBLE, per_condition_timeout=120 if tier == "quick" else 600, per_module=4)
    eby = dict((h.name, h) for h in ehs)
    for name, (verdict, detail) in sorted(eres.items()):
        h = eby[name]
        okey = "engine-answer:%s:form%d" % (h.meta["t1"], h.meta["domain"])
        if verdict == "confirmed":
            st.ob("proved", key=okey)
        elif verdict == "inconclusive":
            st.ob("inconclusive", key=okey, note="%s: %s" % (okey, detail[:80]))
        else:
            call = xh.parse_call(detail)
            rep = None
            if call:
                kind, val = xh.call_harness(E_PREAMBLE, h, call[1], call[2])
                rep = ("raised %s: %s" % (type(val).__name__, val)) if kind == "exc" else (val or None)
            if rep:
                st.ob("refuted", key=okey)
                vkey = "engine-answer:%s" % rep.split(":")[0].split(" q(")[0][:50]
                if h.meta["domain"] == 1 and rep.startswith("bindings"):
                    # causal attribution: the same pair unified directly with =/2 (form 0) returns the right bindings, so the
                    # loss happens where the bindings made by matching the clause head e(A,A) are returned to the caller
                    h0 = xh.Harness("h_eng_probe", h.source.replace(h.name, "h_eng_probe").replace(", 1)\n", ", 0)\n"), {})
                    k0, v0 = xh.call_harness(E_PREAMBLE, h0, call[1], call[2])
                    if k0 != "exc" and v0 == "":
                        vkey = "engine-answer:clause-head-aliasing:sharing-lost"
                st.violation(vkey, rep,
                             {"kind": "xh-engine", "harness": h.source, "name": h.name, "args": list(call[1]), "kwargs": call[2]})
            else:
                st.ob("inconclusive", key=okey, note="counterexample did not replay: %s" % detail[:120])
    cpu += ecpu
    hs = hs + ehs
    n_ground = len(ground_pairs)
    bad = ground_check(st, ground_pairs)
    st["solver_time"] += cpu
    st["queries"] += len(hs)
    st["programs"] = len(hs)
    run.merge(st)
    run.bounds = {"crosshair_conditions": len(hs), "per_condition_timeout_s": timeout, "ground_pairs_concrete": n_ground,
                  "ground_pairs_failing": bad, "shapes": len(shapes())}
    run.extra["rule"] = "one obligation per CrossHair condition (shape pair x entry point); distinct by shape pair, entry point and id domain"
    return run.finish()


def replay(obj):
    if obj.get("kind") == "ground":
        st = Stats()
        return ground_check(st, [(obj["t1"], obj["t2"])]) > 0
    h = xh.Harness(obj["name"], obj["harness"])
    kind, val = xh.call_harness(E_PREAMBLE if obj.get("kind") == "xh-engine" else PREAMBLE, h, obj["args"], obj.get("kwargs") or {})
    return kind == "exc" or val != ""

"""C04 Documented arbitrary-order (unbuffered) evaluation agrees with default (E1 run-vs-run)."""
from fractions import Fraction

from vlib import gen, diffcheck
from vlib.common import Run, Stats, pmap
from props import c03

FUNCS = ["problog.engine_stack.MessageAnyOrder/MessageOrderD/MessageOrderDrc",
         "unbuffered branches of problog.eval_nodes.EvalOr/EvalDefine",
         "RandomOrderQueue transcribed from docs/source/engine.rst", "evaluation pipeline as in C01"]


import re


def _recursion_under_negation(text):
    """the program negates a goal of a predicate that (directly) calls itself"""
    rec = set()
    for line in text.split("\n"):
        m = re.match(r"^\s*(?:[\w.]+::)?(\w+)(?:\([^)]*\))?\s*:-(.*)$", line)
        if m and re.search(r"(?<![\w])%s\(" % re.escape(m.group(1)), m.group(2)):
            rec.add(m.group(1))
    return any(re.search(r"\\\+\s*%s\b" % re.escape(p), text) for p in rec)


def work(item):
    # C04 states "the same accept/reject decision" (C03: "the same errors"): two runs that both
    # refuse to answer agree, whatever exception each raises
    st = c03.work(item, errors="reject")
    # a VALUE that differs under the random e-message order is keyed by the program class, not by the program
    text = gen.program_text(item[1])
    for v in st["violations"]:
        b = v["replay"].get("B") or {}
        if b.get("engine") == "random" and v["key"].split(":")[0] in ("bool", "real", "extra") and _recursion_under_negation(text):
            v["key"] = "random:value:recursive-goal-under-negation"
    return st


def main(tier, seed):
    run = Run("C04", tier, seed, "translation_validation",
              "default engine vs unbuffered depth-first, unbuffered rc-first and seeded random e-message "
              "order; results are rational functions of the symbolic weights, z3 decides identity")
    run.functions = FUNCS
    run.assumptions = ["3 engine modes x seeded random orders (bounded)",
                       "accept/reject: any exception counts as reject; the exception types of two rejecting "
                       "runs are not compared (the property states the decision, not the error)",
                       "an instance reported by only one run is accepted iff its value is identically 0"]
    ns = 2 if tier == "quick" else 20
    items = []
    progs = c03.programs(tier, seed, 23000)
    if tier == 'quick':
        progs = progs[:15] + progs[15:40] + progs[-10:]
    for name, prog in progs:
        descs = [{"engine": "unbuffered"}, {"engine": "rc_first"}]
        descs += [{"engine": "random", "seed": "%s/%s/%d" % (seed, name, k)} for k in range(ns)]
        items.append((name, prog, descs))
    run.bounds = {"skeletons": len(items), "configurations_per_skeleton": 2 + ns}
    for st in pmap(work, items, item_timeout=120 if tier == "quick" else 900):
        run.merge(st)
    return run.finish()


def replay(obj):
    return c03.replay(obj, errors="reject")

"""C24 One LFI iteration (E-step through the real evaluator + M-step) with SYMBOLIC current parameters (E1/E5)."""
import builtins
import logging
import math
import random
import time
from fractions import Fraction

import z3

from problog.logic import Term, Constant
from problog.program import PrologString
import problog.learning.lfi as lfi
from problog.learning.lfi import LFIProblem

from vlib import gen, refsem, sym, symsem
from vlib.common import Run, Stats, pmap, short_hash
from vlib.gen import A
from vlib.semcheck import call_site
from vlib.sym import SymReal, PathDriver

FUNCS = ["problog.learning.lfi.LFIProblem.{prepare,_process_examples,_compile_examples,_evaluate_examples,_update,"
         "_normalize_weights,_set_weight,_get_weight}", "problog.learning.lfi.ExampleEvaluator.{value,_call_internal}",
         "problog.learning.lfi.Example.compile", "problog.ddnnf_formula.SimpleDDNNFEvaluator (E-step marginals on SymReal proxies)"]

logging.getLogger("problog_lfi").setLevel(logging.CRITICAL)


def _isinstance(x, t):
    if t is lfi.float:
        return builtins.isinstance(x, (builtins.float, SymReal))
    return builtins.isinstance(x, t)


# module-global shadowing inside the check process only (no source hook)
lfi.isinstance = _isinstance
def _numconst(x):
    # during a symbolic run numeric constants of the program are exact rationals (no float rounding in 1 - 0.7)
    if sym.CUR is not None and type(x) is Constant and type(x.functor) in (builtins.float, int):
        return SymReal.lift(x.functor)
    return None


lfi.float = sym.make_sym_float(_numconst)
lfi.math = sym.MathShim()

LO, HI = "1/50", "49/50"


def lfi_program(rng, complete):
    """(reference AST with tunable parameters p<k>, text for LFIProblem, tunables, AD groups, observable atoms)"""
    prog, lines = [], []
    k = 0
    tun = []            # (param, atom, kind, body literals, group id)
    facts = []
    fixed = []
    for i in range(rng.randint(1, 2)):
        v = rng.choice(["1/2", "3/10", "7/10", "1/5"])
        a = A("g%d" % i)
        prog.append(("ad", [(v, a)], []))
        lines.append("%s::g%d." % (float(Fraction(v)), i))
        fixed.append(a)
    for i in range(rng.randint(1, 2)):
        k += 1
        a = A("f%d" % i)
        body = [(rng.choice(fixed), False)] if rng.random() < 0.3 else []
        prog.append(("ad", [("p%d" % k, a)], body))
        lines.append("t(_)::f%d%s." % (i, (" :- " + ", ".join(gen.lit_str(l) for l in body)) if body else ""))
        tun.append(("p%d" % k, a, "fact", body, None))
        facts.append(a)
    groups = []
    if rng.random() < 0.6:
        nh = rng.randint(2, 3)
        fixed_last = (not complete) and rng.random() < 0.3
        body = [(rng.choice(fixed), rng.random() < 0.3)] if rng.random() < 0.4 else []
        heads, txt, grp = [], [], []
        for j in range(nh):
            a = A("h%d" % j)
            if fixed_last and j == nh - 1:
                heads.append(("3/10", a))
                txt.append("0.3::h%d" % j)
            else:
                k += 1
                heads.append(("p%d" % k, a))
                txt.append("t(_)::h%d" % j)
                tun.append(("p%d" % k, a, "head", body, len(groups)))
                grp.append("p%d" % k)
            facts.append(a)
        prog.append(("ad", heads, body))
        lines.append("; ".join(txt) + ((" :- " + ", ".join(gen.lit_str(l) for l in body)) if body else "") + ".")
        groups.append((grp, Fraction(7, 10) if fixed_last else Fraction(1)))
    ders = []
    for j in range(rng.randint(1, 2)):
        d = A("d%d" % j)
        for _ in range(rng.randint(1, 2)):
            body = []
            for _ in range(rng.randint(1, 2)):
                body.append((rng.choice(facts + fixed + ders), rng.random() < 0.3))
            body = [l for l in body if not l[1]] + [l for l in body if l[1]]
            prog.append(("rule", d, body))
            lines.append("%s :- %s." % (gen.atom_str(d), ", ".join(gen.lit_str(l) for l in body)))
        ders.append(d)
    return prog, "\n".join(lines) + "\n", tun, groups, fixed + facts, ders


def make_examples(rng, G, choice_atoms, ders, complete):
    """partial interpretations read off worlds of the reference program (so every example is consistent)"""
    atoms = choice_atoms + ders
    tabs = refsem.truth_table(G, atoms)
    n = refsem.world_count(G)
    exs = []
    for _ in range(rng.randint(2, 4)):
        w = rng.randrange(n)
        if complete:
            obs = list(choice_atoms)
        else:
            obs = [a for a in atoms if rng.random() < 0.5] or [rng.choice(atoms)]
        exs.append([(a, tabs[a][w]) for a in obs])
    return exs, tabs


def frac(x):
    x = SymReal.lift(x)
    return x.e / x.den if x.den is not None else x.e


def concrete_run(text, examples, normalize, index_of, w0, steps=2, propagate=False, infer_ad=True):
    """plain float run of the real code from the initial weights w0 (replay of a solver model)"""
    try:
        p = LFIProblem(PrologString(text), examples, normalize=normalize, propagate_evidence=propagate, infer_AD_values=infer_ad)
        p.prepare()
        for pr, i in index_of.items():
            p._weights[i] = float(w0[pr])
        out = []
        for _ in range(steps):
            res = p._evaluate_examples()
            ll, _c = p._update(res)
            ws = {}
            for pr, i in index_of.items():
                w = p._weights[i]
                ws[pr] = list(w.values())[0] if builtins.isinstance(w, dict) else w
            out.append((float(ll), ws, len(res)))
        return out
    finally:
        pass


def work(item):
    name, seedstr, normalize, complete = item[:4]
    propagate = item[4] if len(item) > 4 else False
    rng = random.Random(seedstr)
    prog, text, tun, groups, choice_atoms, ders = lfi_program(rng, complete)
    st = Stats()
    st["programs"] = 1
    G = refsem.ground(prog)
    exs, tabs = make_examples(rng, G, choice_atoms, ders, complete)
    examples = [[(Term(gen.atom_str(a)), v) for a, v in e] for e in exs]
    etext = " | ".join(",".join(("" if v else "\\+") + gen.atom_str(a) for a, v in e) for e in exs)
    pkey = short_hash([text, etext, normalize, propagate])
    st["samples"].append({"name": name, "program": text, "examples": etext, "normalize": normalize})
    rep = {"seed": seedstr, "normalize": normalize, "complete": complete, "propagate": propagate, "program": text, "examples": etext}
    cfg = "normalize" if normalize else "nonormalize"

    def violation(kind, what, extra=None):
        r = dict(rep)
        r.update(extra or {})
        r["kind"] = kind
        st.violation("%s:%s" % (cfg, kind), "%s [%s; examples %s]" % (what, text.replace("\n", " "), etext), r)

    try:
        p = LFIProblem(PrologString(text), examples, normalize=normalize, propagate_evidence=propagate)
        p.prepare()
    except Exception as e:
        st.ob("refuted", key="prepare:" + pkey)
        kind_ = "raised:%s@%s" % (type(e).__name__, call_site(e))
        # causal attribution: does the failure disappear when LFI does not invent evidence for annotated disjunctions?
        try:
            p2 = LFIProblem(PrologString(text), examples, normalize=normalize, propagate_evidence=propagate, infer_AD_values=False)
            p2.prepare()
            if groups:
                kind_ = "infer-ad-values:evidence-invented-although-the-body-is-false"
        except Exception:
            pass
        violation(kind_, "LFIProblem.prepare raised %s: %s" % (type(e).__name__, e))
        return st
    index_of = {}
    for i, nm in enumerate(p.names):
        s = gen.atom_str((nm.functor, tuple(str(a) for a in nm.args)))
        for pr, a, _k, _b, _g in tun:
            if gen.atom_str(a) == s:
                index_of[pr] = i
    if len(index_of) != len(tun):
        st.harness_error("tunable facts not matched: %s vs %s" % (p.names, tun))
        return st
    params = [t[0] for t in tun]
    region = symsem.default_region(params, [g for g, _ in groups], lo=LO, hi=HI)
    for g, avail in groups:
        region.append(z3.Sum([z3.Real(x) for x in g]) < z3.RealVal(str(avail)))
    drv = PathDriver(region, timeout_ms=10000, max_paths=24)
    drv.params = {}

    def once():
        for pr, i in index_of.items():
            p._weights[i] = sym.param(pr)
        res = p._evaluate_examples()
        ll, _conv = p._update(res)
        out = {}
        for pr, i in index_of.items():
            w = p._weights[i]
            out[pr] = list(w.values())[0] if builtins.isinstance(w, dict) else w
        return {"new": out, "res": [(m, pe) for m, pe, _ in res], "n": len(res)}

    t0 = time.time()
    try:
        paths = drv.explore(once)
    except (sym.Inconclusive, sym.Unsupported) as e:
        st.ob("inconclusive", key=pkey, note="symbolic step: %s" % str(e)[:100])
        return st
    st["solver_time"] += getattr(drv, "solver_time", 0.0)
    st["queries"] += getattr(drv, "queries", 0)
    prover = symsem.Prover(region, timeout_ms=20000)

    def chk(*conds, timeout=None):
        t = time.time()
        s = z3.Solver()
        s.set("timeout", timeout or 20000)
        for c in region:
            s.add(c)
        for c in conds:
            s.add(c)
        r = str(s.check())
        st["solver_time"] += time.time() - t
        st["queries"] += 1
        return r, (s.model() if r == "sat" else None)

    def model_w(m):
        out = {}
        for pr in params:
            v = m.eval(z3.Real(pr), model_completion=True)
            if z3.is_algebraic_value(v):
                v = v.approx(20)          # an irrational witness: a rational neighbour is replayed instead
            out[pr] = Fraction(str(v.as_fraction()))
        return out

    # reference likelihood of every distinct example as a polynomial in the parameters
    n = refsem.world_count(G)
    ex_poly = {}
    for e in exs:
        key = tuple(sorted((gen.atom_str(a), v) for a, v in e))
        if key in ex_poly:
            ex_poly[key][1] += 1
            continue
        tab = [True] * n
        for a, v in e:
            tab = [x and (y if v else not y) for x, y in zip(tab, tabs[a])]
        ex_poly[key] = [refsem.poly_of_table(G, tab)[0], 1]

    # complete data: relative frequencies
    freq = {}
    if complete:
        for pr, a, kind, body, gid in tun:
            num = den = 0
            for e in exs:
                d = dict(e)
                if all(d[b] != neg for b, neg in body):
                    den += 1
                    num += 1 if d[a] else 0
            if den:
                freq[pr] = Fraction(num, den)

    for pi, (pc, kind, val) in enumerate(paths):
        okey = "%s:path%d" % (pkey, pi)
        if kind != "ok":
            r, m = chk(*pc)
            w0 = model_w(m) if m is not None else dict((pr, Fraction(1, 2)) for pr in params)
            try:
                concrete_run(text, examples, normalize, index_of, w0, steps=1, propagate=propagate)
                st.ob("inconclusive", key=okey, note="symbolic run raised %s, concrete replay does not" % type(val).__name__)
            except Exception as e2:
                st.ob("refuted", key=okey)
                violation("raised:%s@%s" % (type(e2).__name__, call_site(e2)), "one LFI iteration from weights %s raised %s: %s" % (
                    w0, type(e2).__name__, e2), {"w0": dict((k_, str(v)) for k_, v in w0.items())})
            continue
        new = val["new"]
        # (1) every learned parameter is a probability
        for pr in params:
            w = frac(new[pr])
            r, m = chk(*(list(pc) + [z3.Or(w < 0, w > 1 + z3.RealVal("1/1000000000"))]))
            if r == "sat":
                w0 = model_w(m)
                out = concrete_run(text, examples, normalize, index_of, w0, steps=1, propagate=propagate)
                got = out[0][1][pr]
                if got < 0 or got > 1 + 1e-9:
                    st.ob("refuted", key=okey + ":range:" + pr)
                    violation("range", "from current parameters %s one iteration learns %s = %s, not a probability" % (w0, pr, got),
                              {"w0": dict((k_, str(v)) for k_, v in w0.items())})
                else:
                    st.ob("inconclusive", key=okey + ":range:" + pr, note="range model did not replay")
            else:
                st.ob("proved" if r == "unsat" else "inconclusive", key=okey + ":range:" + pr)
        # (2) the learned probabilities of an annotated disjunction sum to at most 1 (with its fixed heads)
        for g, avail in groups:
            tot = z3.Sum([frac(new[pr]) for pr in g]) + z3.RealVal(str(1 - avail))
            r, m = chk(*(list(pc) + [tot > 1 + z3.RealVal("1/1000000000")]))
            if r == "sat":
                w0 = model_w(m)
                out = concrete_run(text, examples, normalize, index_of, w0, steps=1, propagate=propagate)
                got = sum(out[0][1][pr] for pr in g) + float(1 - avail)
                if got > 1 + 1e-9:
                    st.ob("refuted", key=okey + ":adsum")
                    violation("ad-sum:fixed-head-not-accounted" if avail < 1 else "ad-sum", "from current parameters %s one iteration learns an annotated disjunction with total mass %s" % (w0, got),
                              {"w0": dict((k_, str(v)) for k_, v in w0.items())})
                else:
                    st.ob("inconclusive", key=okey + ":adsum", note="ad-sum model did not replay")
            else:
                st.ob("proved" if r == "unsat" else "inconclusive", key=okey + ":adsum")
        # (3) complete data: one iteration returns the relative frequencies, whatever the current parameters
        for pr, f in freq.items():
            w = frac(new[pr])
            r, m = chk(*(list(pc) + [z3.Or(w > z3.RealVal(str(f)) + z3.RealVal("1/1000000000"), w < z3.RealVal(str(f)) - z3.RealVal("1/1000000000"))]))
            if r == "sat":
                w0 = model_w(m)
                out = concrete_run(text, examples, normalize, index_of, w0, steps=1, propagate=propagate)
                got = out[0][1][pr]
                if abs(got - float(f)) > 1e-9:
                    st.ob("refuted", key=okey + ":mle:" + pr)
                    kind_ = "mle"
                    t_ = [t for t in tun if t[0] == pr][0]
                    if t_[4] is not None:
                        g, avail = groups[t_[4]]
                        fs = [freq.get(x) for x in g]
                        if None not in fs and sum(fs) > 0:
                            if normalize and sum(fs) < avail and abs(got - float(f * avail / sum(fs))) <= 1e-9:
                                kind_ = "mle:ad-rescaled-to-full-mass"
                            if not normalize and abs(got - float(f / len(g))) <= 1e-9:
                                kind_ = "mle:ad-divided-by-number-of-heads"
                    violation(kind_, "complete data: %s has relative frequency %s but one iteration from %s learns %s" % (pr, f, w0, got),
                              {"w0": dict((k_, str(v)) for k_, v in w0.items())})
                else:
                    st.ob("inconclusive", key=okey + ":mle:" + pr, note="mle model did not replay")
            else:
                st.ob("proved" if r == "unsat" else "inconclusive", key=okey + ":mle:" + pr)
        # (4) the evidence probability used for the reported log-likelihood is the probability of the example
        res = val["res"]
        polys = list(ex_poly.values())
        if sum(m_ for m_, _ in res) != len(exs):
            # every example is read off a world of the program and the parameters are strictly inside the box: none has
            # probability zero, so none may be dropped
            st.ob("refuted", key=okey + ":examples")
            kind_ = "example-dropped"
            try:
                p2 = LFIProblem(PrologString(text), examples, normalize=normalize, propagate_evidence=propagate, infer_AD_values=False)
                p2.prepare()
                for pr, i in index_of.items():
                    p2._weights[i] = 0.5 / max(1, len(params))
                if sum(m_ for m_, _pe, _r in p2._evaluate_examples()) == len(exs) and groups:
                    kind_ = "infer-ad-values:evidence-invented-although-the-body-is-false"
            except Exception:
                pass
            violation(kind_, "%d of %d consistent examples are dropped as inconsistent (ignored with a warning) in the E-step" % (
                len(exs) - sum(m_ for m_, _ in res), len(exs)))
        else:
            st.ob("proved", key=okey + ":examples")
        if len(res) == len(polys):
            ms = sorted(m_ for m_, _ in res)
            if ms == sorted(c for _, c in polys):
                # examples are grouped; match each reported P(e) with one reference polynomial
                unmatched = list(polys)
                bad = None
                for m_, pe in res:
                    hit = None
                    for q in unmatched:
                        if q[1] == m_ and prover.frac_equal((SymReal.lift(pe).e, SymReal.lift(pe).den), (q[0], None), extra=pc)[0] == "proved":
                            hit = q
                            break
                    if hit is None:
                        bad = pe
                        break
                    unmatched.remove(hit)
                st.ob("proved" if bad is None else "inconclusive", key=okey + ":pevidence",
                      note=None if bad is None else "a reported P(evidence) matched no reference polynomial")
        # (5) the log-likelihood does not decrease: prod P(e; new)^m >= prod P(e; current)^m
        subs = [(z3.Real(pr), z3.Real("v_" + pr)) for pr in params]
        link = []
        for pr in params:
            x = SymReal.lift(new[pr])
            v = z3.Real("v_" + pr)
            link.append(v * (x.den if x.den is not None else 1) == x.e)
            if x.den is not None:
                link.append(x.den != 0)
        L0 = z3.RealVal(1)
        L1 = z3.RealVal(1)
        for q, c in polys:
            for _ in range(c):
                L0 = L0 * q
                L1 = L1 * z3.substitute(q, *subs)
        verdict = None
        r, m = chk(*(list(pc) + link + [L1 < L0]), timeout=15000)
        slices = 0
        if r == "unknown":
            # one symbolic parameter at a time, the others on a seeded grid
            grid = ["1/10", "3/10", "1/2", "7/10", "9/10"]
            rs = []
            for pr in params:
                for _t in range(2):
                    fix = []
                    for other in params:
                        if other != pr:
                            fix.append(z3.Real(other) == z3.RealVal(rng.choice(grid)) * (z3.RealVal(1) / len(params)))
                    r2, m2 = chk(*(list(pc) + link + fix + [L1 < L0]), timeout=15000)
                    slices += 1
                    rs.append(r2)
                    if r2 == "sat":
                        r, m = r2, m2
                        break
                if r == "sat":
                    break
            if r != "sat":
                r = "unsat-slices" if all(x == "unsat" for x in rs) else "unknown"
        if r == "sat":
            w0 = model_w(m)
            out = concrete_run(text, examples, normalize, index_of, w0, steps=2, propagate=propagate)
            dropped = out[1][2] < out[0][2]
            if out[1][0] < out[0][0] - 1e-9 or dropped:
                st.ob("refuted", key=okey + ":monotone")
                # attribution: is the M-step of the annotated disjunctions responsible?  Hold their parameters at the
                # current values and keep every other learned parameter: does the reference likelihood still decrease?
                def ref_ll(vals):
                    tot = 0.0
                    sub = [(z3.Real(pr), z3.RealVal(str(Fraction(vals[pr]).limit_denominator(10 ** 12)))) for pr in params]
                    for q, c in polys:
                        v = z3.simplify(z3.substitute(q, *sub))
                        v = float(v.as_fraction())
                        if v <= 0:
                            return float("-inf")
                        tot += c * math.log(v)
                    return tot
                held = dict(out[0][1])
                for g, _a in groups:
                    for pr in g:
                        held[pr] = w0[pr]
                kind_ = "monotone"
                if groups and ref_ll(held) >= ref_ll(w0) - 1e-9:
                    kind_ = "monotone:ad-update"
                elif groups and out[0][2] < len(exs):
                    # a consistent example was dropped in the E-step: is the decrease gone when LFI does not invent evidence?
                    try:
                        out2 = concrete_run(text, examples, normalize, index_of, w0, steps=2, propagate=propagate, infer_ad=False)
                        if out2[0][2] == len(exs) and not (out2[1][0] < out2[0][0] - 1e-9):
                            kind_ = "infer-ad-values:evidence-invented-although-the-body-is-false"
                        elif out2[0][2] == len(exs):
                            # both known defects act together: without the invented evidence the remaining decrease is the AD update's
                            held2 = dict(out2[0][1])
                            for g, _a in groups:
                                for pr in g:
                                    held2[pr] = w0[pr]
                            if ref_ll(held2) >= ref_ll(w0) - 1e-9:
                                kind_ = "monotone:ad-update"
                    except Exception:
                        pass
                what = "log-likelihood decreases: %s at the current parameters %s, %s after one iteration (%s)" % (
                    out[0][0], w0, out[1][0], out[0][1])
                if dropped:
                    what = ("after one iteration from %s (to %s) %d example(s) have probability 0 and are silently dropped: the data "
                            "log-likelihood falls from %s to -inf while %s is reported" % (w0, out[0][1], out[0][2] - out[1][2], out[0][0], out[1][0]))
                violation(kind_, what, {"w0": dict((k_, str(v)) for k_, v in w0.items())})
            else:
                st.ob("inconclusive", key=okey + ":monotone", note="monotonicity model did not replay (%s -> %s)" % (out[0][0], out[1][0]))
        elif r == "unsat":
            st.ob("proved", key=okey + ":monotone")
        elif r == "unsat-slices":
            st.ob("proved", key=okey + ":monotone-slices")
            st["slices"] = st.get("slices", 0) + slices
        else:
            st.ob("inconclusive", key=okey + ":monotone", note="monotonicity query: solver unknown")
    return st


def main(tier, seed):
    run = Run("C24", tier, seed, "other",
              "one full iteration of the real LFI code (E-step through the real d-DNNF evaluator, M-step _update and "
              "_normalize_weights) is executed with the CURRENT parameters symbolic (SymReal proxies; builtin float, isinstance "
              "and math shadowed as module globals of problog.learning.lfi in the check process); every path yields the new "
              "parameters as rational functions of the current ones, and z3 (NRA) decides for ALL current parameter values in the "
              "box: new parameters are probabilities, annotated disjunctions sum to at most 1, complete data gives the relative "
              "frequencies, P(evidence) is the reference probability of the example, and the likelihood does not decrease")
    run.functions = FUNCS
    run.assumptions = ["propositional programs: 1-2 fixed facts, 1-2 tunable facts (optionally with a body), optional tunable annotated "
                       "disjunction (2-3 heads, optional fixed head, optional body), 1-2 derived atoms; 2-4 examples read off worlds of "
                       "the program (so consistent); current parameters in the box (1/50, 49/50), AD sums below the available mass",
                       "ONE iteration from an arbitrary current parameter vector: since every iteration starts from some parameter "
                       "vector, a per-iteration claim for all vectors in the box covers runs of any length that stay in the box",
                       "monotonicity: full multivariate query first (15 s); if the solver answers unknown, one symbolic parameter at a "
                       "time with the others on a seeded grid ('monotone-slices', a weaker bounded claim)",
                       "three configurations: normalize=True (the configuration the test-suite pins), normalize=False (default of the Python API "
                       "LFIProblem/run_lfi), and normalize=True with propagate_evidence=True (defaults of the `problog lfi` command line)",
                       "floats are reals; thresholds 1e-6 / 1e-15 of the real code are path decisions; log-space mode (ExampleEvaluatorLog), "
                       "non-ground tunable clauses, leak probabilities and continuous distributions are outside the claim"]
    n = 24 if tier == "quick" else 300
    items = []
    for i in range(n):
        for normalize in (True, False):
            items.append(("lfi/%d/%d/%s" % (seed, i, normalize), "c24/%s/%s" % (seed, i), normalize, i % 2 == 0))
        # the command-line configuration: normalisation and evidence propagation
        items.append(("lfi/%d/%d/cli" % (seed, i), "c24/%s/%s" % (seed, i), True, i % 2 == 0, True))
    run.bounds = {"programs": len(items), "box": [LO, HI], "max_tunable": 5, "max_examples": 4}
    slices = 0
    for st in pmap(work, items, item_timeout=150 if tier == "quick" else 900):
        slices += st.get("slices", 0)
        run.merge(st)
    run.extra["monotone_slices"] = slices
    run.extra["rule"] = "per program and path: one obligation per parameter (range, complete-data frequency), per AD (sum), per run (P(evidence), monotone)"
    return run.finish()


def replay(obj):
    st = work(("replay", obj["seed"], obj["normalize"], obj["complete"], obj.get("propagate", False)))
    return any(v["replay"].get("kind") == obj.get("kind") for v in st["violations"])

"""C32 Weighted selection library predicates define the documented distribution (E1 with symbolic weights)."""
import itertools
import random
import re
from fractions import Fraction

import z3

import problog.logic as pl

from vlib import sym, symsem
from vlib.common import Run, Stats, pmap, short_hash

FUNCS = ["problog/library/lists.pl select_weighted/4,5, select_uniform/4, sw/6, sw_p/5, sum_list/2, unzip/3, make_list/3",
         "problog.engine_builtin._builtin_is / comparison builtins on symbolic weights", "evaluation pipeline as in C01"]

ATOMS = ["a", "b", "c", "d", "e"]


def run_symbolic(text, params, region):
    drv = sym.PathDriver(region, timeout_ms=10000, max_paths=8)
    drv.params = dict((p, sym.param(p, "p")) for p in params)
    saved = dict((p, pl._arithmetic_functions.get((p, 0))) for p in params)
    for p in params:
        pl._arithmetic_functions[(p, 0)] = (lambda p=p: drv.params[p])
    try:
        paths = drv.explore(lambda: symsem.evaluate_text(text, symsem.SymProbability()))
    finally:
        for p in params:
            if saved[p] is None:
                pl._arithmetic_functions.pop((p, 0), None)
            else:
                pl._arithmetic_functions[(p, 0)] = saved[p]
    return paths, drv


def parse_answer(k):
    """'q(c,[a, b])' -> ('c', ('a','b')) ; 'q2(a,b)' -> ('a','b')"""
    m = re.match(r"^q\(([a-z]+),\[(.*)\]\)$", k.replace(" ", ""))
    if m:
        return (m.group(1), tuple(x for x in m.group(2).split(",") if x))
    m = re.match(r"^q[23]\(([a-z]+),([a-z]+)\)$", k.replace(" ", ""))
    if m:
        return (m.group(1), m.group(2))
    return None


def case_text(kind, values, n):
    ws = ["w%d" % (i + 1) for i in range(n)]
    wl = "[%s]" % ",".join(ws)
    vl = "[%s]" % ",".join(values)
    pre = ":- use_module(library(lists)).\n"
    if kind == "sw5":
        return pre + "q(X,R) :- select_weighted(id1, %s, %s, X, R).\nquery(q(X,R)).\n" % (wl, vl)
    if kind == "sw4":
        pairs = "[%s]" % ",".join("(%s,%s)" % (w, v) for w, v in zip(ws, values))
        return pre + "q(X,R) :- select_weighted(id1, %s, X, R).\nquery(q(X,R)).\n" % pairs
    if kind == "same-id":
        return pre + ("q2(X,Y) :- select_weighted(id1, %s, %s, X, _), select_weighted(id1, %s, %s, Y, _).\nquery(q2(X,Y)).\n"
                      % (wl, vl, wl, vl))
    if kind == "two-ids":
        return pre + ("q3(X,Y) :- select_weighted(id1, %s, %s, X, _), select_weighted(id2, %s, %s, Y, _).\nquery(q3(X,Y)).\n"
                      % (wl, vl, wl, vl))
    raise ValueError(kind)


def expected(kind, values, n):
    """answer -> numerator polynomial over the weights (denominator: total or total^2)"""
    W = [z3.Real("w%d" % (i + 1)) for i in range(n)]
    total = z3.Sum(W) if n > 1 else W[0]
    exp = {}
    if kind in ("sw5", "sw4"):
        for i, v in enumerate(values):
            key = (v, tuple(values[:i] + values[i + 1:]))
            exp[key] = exp.get(key, z3.RealVal(0)) + W[i]
        return exp, total
    if kind == "same-id":
        for i, v in enumerate(values):
            exp[(v, v)] = exp.get((v, v), z3.RealVal(0)) + W[i]
        return exp, total
    for i, v in enumerate(values):
        for j, u in enumerate(values):
            exp[(v, u)] = exp.get((v, u), z3.RealVal(0)) + W[i] * W[j]
    return exp, total * total


def work(item):
    kind, values = item
    n = len(values)
    st = Stats()
    st["programs"] = 1
    params = ["w%d" % (i + 1) for i in range(n)]
    region = [z3.Real(p) > 0 for p in params]
    text = case_text(kind, values, n)
    okey0 = "%s:%s" % (kind, ",".join(values))
    st["samples"].append({"kind": kind, "program": text})
    try:
        paths, drv = run_symbolic(text, params, region)
        st["solver_time"] += drv.solver_time
        st["queries"] += drv.queries
    except (sym.Unsupported, sym.Inconclusive) as e:
        st.ob("inconclusive", key=okey0, note="%s: %s" % (okey0, str(e)[:80]))
        return st
    pv = symsem.Prover(region, 20000)
    exp, den = expected(kind, values, n)
    for pc, pkind, val in paths:
        if pkind != "ok":
            rep = replay_one(kind, values, None)
            st.ob("refuted" if rep else "inconclusive", key=okey0 + ":raise")
            if rep:
                st.violation("%s:raised" % kind, "%s on %s raised %s: %s" % (kind, values, type(val).__name__, val),
                             {"kind": kind, "values": list(values), "weights": None})
            continue
        got = {}
        for k, v in val.items():
            a = parse_answer(k)
            if a is None:
                continue
            v = sym.SymReal.lift(v)
            got[a] = (v.e, v.den)
        for a in sorted(set(got) | set(exp)):
            okey = "%s:%s" % (okey0, a)
            num, d = got.get(a, (z3.RealVal(0), None))
            ref = (exp.get(a, z3.RealVal(0)), den)
            v, m = pv.frac_equal((num, d), ref, extra=list(pc))
            if v == "proved":
                st.ob("proved", key=okey)
            elif v == "refuted":
                ws = symsem.model_values(m, params)
                rep = replay_one(kind, values, ws)
                if rep:
                    st.ob("refuted", key=okey)
                    st.violation("%s:distribution" % kind, "%s %s answer %s: %s" % (kind, values, a, rep),
                                 {"kind": kind, "values": list(values), "weights": dict((k, str(x)) for k, x in ws.items())})
                else:
                    st.ob("inconclusive", key=okey, note="model did not replay with floats: %s %s" % (okey, ws))
            else:
                st.ob("inconclusive", key=okey, note="z3 unknown")
    st["solver_time"] += pv.solver_time
    st["queries"] += pv.queries
    return st


def replay_one(kind, values, ws):
    """Concrete run with numeric weights against exact rationals."""
    n = len(values)
    ws = dict((k, Fraction(v)) for k, v in (ws or {}).items())
    for i in range(n):
        ws.setdefault("w%d" % (i + 1), Fraction(i + 1))
    text = case_text(kind, list(values), n)
    for k in sorted(ws, key=lambda s: -len(s)):
        text = re.sub(r"\b%s\b" % k, repr(float(ws[k])), text)
    kres, res = symsem.run_float(text)
    if kres != "ok":
        return "raised %s: %s" % (type(res).__name__, res)
    W = [ws["w%d" % (i + 1)] for i in range(n)]
    tot = sum(W)
    exp = {}
    if kind in ("sw5", "sw4"):
        for i, v in enumerate(values):
            key = (v, tuple(values[:i] + values[i + 1:]))
            exp[key] = exp.get(key, 0) + W[i] / tot
    elif kind == "same-id":
        for i, v in enumerate(values):
            exp[(v, v)] = exp.get((v, v), 0) + W[i] / tot
    else:
        for i, v in enumerate(values):
            for j, u in enumerate(values):
                exp[(v, u)] = exp.get((v, u), 0) + W[i] * W[j] / (tot * tot)
    got = {}
    for k, v in res.items():
        a = parse_answer(k)
        if a is not None:
            got[a] = v
    for a in set(got) | set(exp):
        if abs(got.get(a, 0.0) - float(exp.get(a, 0))) > 1e-7:
            return "answer %s: problog %.8f, documented distribution %.8f with weights %s" % (
                a, got.get(a, 0.0), float(exp.get(a, 0)), [str(w) for w in W])
    return None


def uniform_check(st, values):
    """select_uniform/4: weights 1/Len are computed in floating point -> concrete comparison with tolerance."""
    n = len(values)
    text = ":- use_module(library(lists)).\nq(X,R) :- select_uniform(id1, [%s], X, R).\nquery(q(X,R)).\n" % ",".join(values)
    kres, res = symsem.run_float(text)
    okey = "uniform:%s" % ",".join(values)
    exp = {}
    for i, v in enumerate(values):
        key = (v, tuple(values[:i] + values[i + 1:]))
        exp[key] = exp.get(key, 0.0) + 1.0 / n
    bad = None
    if kres != "ok":
        bad = "raised %s" % type(res).__name__
    else:
        got = dict((parse_answer(k), v) for k, v in res.items() if parse_answer(k))
        for a in set(got) | set(exp):
            if abs(got.get(a, 0.0) - exp.get(a, 0.0)) > 1e-9:
                bad = "answer %s: %.9f vs %.9f" % (a, got.get(a, 0.0), exp.get(a, 0.0))
    st.ob("refuted" if bad else "proved", key=okey)
    if bad:
        st.violation("uniform:%d" % n, "select_uniform on %s: %s" % (values, bad), {"kind": "uniform", "values": list(values), "weights": None})


def coincidence_work(item):
    """concrete integer weights on lists with repeated elements: the conditional probabilities w_i/(w_i+...+w_n) of two
    positions can coincide exactly, a measure-zero set of weight vectors that the symbolic run never visits"""
    values, weights = item
    st = Stats()
    ws = dict(("w%d" % (i + 1), Fraction(w)) for i, w in enumerate(weights))
    okey = "coincide:%s:%s" % (",".join(values), ",".join(str(w) for w in weights))
    rep = replay_one("sw5", values, ws)
    st.ob("refuted" if rep else "proved", key=okey)
    if rep:
        st.violation("sw5:distribution", "sw5 %s with weights %s: %s" % (values, list(weights), rep),
                     {"kind": "sw5", "values": list(values), "weights": dict((k, str(x)) for k, x in ws.items())})
    return st


def coincidence_cases(tier, seed):
    rng = random.Random("c32/%s" % seed)
    out = []
    for n in (3, 4):
        for vals in itertools.product(ATOMS[:3], repeat=n):
            if len(set(vals)) == n:
                continue
            for ws in itertools.product(range(1, 5), repeat=n):
                conds = [Fraction(ws[i], sum(ws[i:])) for i in range(n - 1)]
                if any(conds[i] == conds[j] and vals[i] == vals[j] for i in range(n - 1) for j in range(i + 1, n - 1)):
                    out.append((list(vals), list(ws)))
    rng.shuffle(out)
    return out[:60] if tier == "quick" else out


def cases(tier):
    out = []
    maxn = 4 if tier == "quick" else 5
    for n in range(1, maxn + 1):
        shapes = [ATOMS[:n]]
        if 2 <= n <= (3 if tier == "quick" else 4):
            shapes.append([ATOMS[0]] * n)                      # all equal
            shapes.append(ATOMS[:n - 1] + [ATOMS[0]])           # first == last
        if n == 3 or (n == 4 and tier != "quick"):
            shapes.append([ATOMS[0], ATOMS[1], ATOMS[1]] + ATOMS[2:n - 1])
        for vals in shapes:
            out.append(("sw5", vals))
            if n <= 3:
                out.append(("sw4", vals))
        if n <= (2 if tier == "quick" else 3):
            out.append(("same-id", ATOMS[:n]))
            out.append(("two-ids", ATOMS[:n]))
    return out


def main(tier, seed):
    run = Run("C32", tier, seed, "translation_validation",
              "select_weighted/4,5 from the real library are grounded and evaluated with SYMBOLIC positive weights (the weight "
              "atoms are evaluable symbols, so is/2, the comparisons and the probabilistic fact sw_p carry z3 terms); z3 proves "
              "for all positive weights that each (element, rest) answer has probability w_i / sum(w) (summed over equal "
              "answers), hence exactly one element is chosen; same identifier => same choice, different identifiers => "
              "independent choices")
    run.functions = FUNCS
    run.assumptions = ["lists of length 1-%d, including equal elements; list shapes enumerated" % (4 if tier == "quick" else 5),
                       "weights symbolic and positive; floats as reals",
                       "lists with repeated elements and small integer weights whose conditional selection probabilities coincide "
                       "exactly (the ground choice atoms of two positions can then be identical) are run concretely against exact "
                       "rationals (enumerated, not solver-decided: a measure-zero set of weight vectors)",
                       "select_uniform/4 computes 1/Len in floating point before the weights reach the semiring: checked concretely "
                       "with tolerance 1e-9 (not solver-decided)"]
    items = cases(tier)
    run.bounds = {"cases": len(items), "max_length": 4 if tier == "quick" else 5}
    for st in pmap(work, items, item_timeout=300):
        run.merge(st)
    cc = coincidence_cases(tier, seed)
    run.bounds["coincidence_cases"] = len(cc)
    for st in pmap(coincidence_work, cc, item_timeout=120):
        run.merge(st)
    st = Stats()
    for n in range(1, 6):
        uniform_check(st, ATOMS[:n])
    uniform_check(st, ["a", "a", "b"])
    run.merge(st)
    return run.finish()


def replay(obj):
    if obj["kind"] == "uniform":
        st = Stats()
        uniform_check(st, obj["values"])
        return bool(st["violations"])
    return bool(replay_one(obj["kind"], obj["values"], obj.get("weights")))

"""C15 Term comparison and sort/2 follow the standard order of terms (E4: CrossHair, leaves symbolic)."""
import itertools
import random

from vlib import xh
from vlib.common import Run, Stats
from vlib.shims import SHIM_SOURCE

FUNCS = ["problog.engine_builtin.struct_cmp", "problog.engine_builtin.compare", "problog.engine_builtin._builtin_compare",
         "problog.engine_builtin._builtin_struct_lt/_le/_gt/_ge", "problog.engine_builtin._builtin_same/_builtin_notsame",
         "problog.engine_builtin._builtin_sort / StructSort", "problog.engine_builtin._is_* classification helpers"]

PREAMBLE = '''
import builtins
import problog.engine_builtin as eb
from problog.logic import Term, Constant, Var
from vlib import order_ref as O
''' + SHIM_SOURCE + '''




eb.float = _float
eb.int = _int


def D(n):
''' + "".join("    if n == %d:\n        return %r\n" % (k, k / 2.0) for k in range(-6, 7)) + '''    return 0.0


TOK = {-1: "'<'", 0: "'='", 1: "'>'"}


def pair_ok(a, b):
    ref = O.ref_cmp(a, b)
    c = eb.struct_cmp(a, b)
    d = eb.struct_cmp(b, a)
    if c not in (-1, 0, 1) or d != -c:
        return False
    if ref is O.NA:
        return True
    if c != ref:
        return False
    r = eb._builtin_compare(-1, a, b)
    if not r or str(r[0][0].functor) != TOK[ref]:
        return False
    if not eb._builtin_compare(Term(TOK[ref]), a, b):
        return False
    if bool(eb._builtin_struct_lt(a, b)) != (ref < 0) or bool(eb._builtin_struct_le(a, b)) != (ref <= 0):
        return False
    if bool(eb._builtin_struct_gt(a, b)) != (ref > 0) or bool(eb._builtin_struct_ge(a, b)) != (ref >= 0):
        return False
    return True


def eq_ok(a, b):
    """==/2 and \\==/2 are the equality of the standard order"""
    ref = O.ref_cmp(a, b)
    if ref is O.NA:
        return True
    if bool(eb._builtin_same(a, b)) != (ref == 0) or bool(eb._builtin_notsame(a, b)) != (ref != 0):
        return False
    return True


def sort_ok(items):
    for x in items:
        for y in items:
            if O.ref_cmp(x, y) is O.NA:
                return True
    r = eb._builtin_sort(eb.build_list(items, Term('[]')), -1)
    if not r:
        return False
    out, tail = eb.list_elements(r[0][1])
    for x, y in zip(out, out[1:]):
        if O.ref_cmp(x, y) != -1:
            return False
    for x in items:
        if not any(O.ref_cmp(x, y) == 0 for y in out):
            return False
    for y in out:
        if not any(O.ref_cmp(x, y) == 0 for x in items):
            return False
    return True
'''

# shape templates: I = symbolic int, F = float chosen by a symbolic selector (k/2, -6 <= k <= 6)
LEAVES = ["-1", "-2", "Constant(I)", "Constant(F)", "Term('a')", "Term('b')", "Term(\"'b'\")", "Term(\"'A'\")", "Term('ab')",
          "Constant('\"s\"')", "Constant('\"t\"')"]
SHAPES = LEAVES + ["Term('f', Constant(I))", "Term('f', Constant(F))", "Term('f', Term('a'))", "Term('g', Term('a'))",
                   "Term('f', Constant(I), Term('a'))", "Term('g', Constant(I), Constant(I))", "Term('f', Term('f', Constant(I)))",
                   "Term('.', Constant(I), Term('[]'))", "Term('f', -1)", "Term(\"'f'\", Constant(I))", "Term('[]')"]


def instantiate(tpl, k0):
    names, out, k = [], "", k0
    i = 0
    while i < len(tpl):
        if tpl.startswith("Constant(I)", i):
            k += 1
            names.append(("i%d" % k, "int"))
            out += "Constant(i%d)" % k
            i += len("Constant(I)")
        elif tpl.startswith("Constant(F)", i):
            k += 1
            names.append(("n%d" % k, "sel"))
            out += "Constant(D(n%d))" % k
            i += len("Constant(F)")
        else:
            out += tpl[i]
            i += 1
    return out, names, k


def harness(idx, kind, tpls, irange):
    exprs, names, k = [], [], 0
    for t in tpls:
        e, n, k = instantiate(t, k)
        exprs.append(e)
        names += n
    sig = ", ".join("%s: int" % n for n, _ in names)
    pre = " and ".join([("-%d <= %s <= %d" % (irange, n, irange)) if t == "int" else ("-6 <= %s <= 6" % n) for n, t in names]) or "True"
    name = "h_%s_%d" % (kind, idx)
    if kind == "pair":
        body = "    return pair_ok(%s, %s)" % (exprs[0], exprs[1])
    elif kind == "eq":
        body = "    return eq_ok(%s, %s)" % (exprs[0], exprs[1])
    else:
        body = "    return sort_ok([%s])" % ", ".join(exprs)
    src = 'def %s(%s) -> bool:\n    """\n    pre: %s\n    post: _\n    """\n%s\n' % (name, sig, pre, body)
    return xh.Harness(name, src, {"kind": kind, "shapes": list(tpls)})


def harnesses(tier, seed):
    rng = random.Random("c15/%s" % seed)
    pairs = list(itertools.product(SHAPES, repeat=2))
    if tier == "quick":
        must = [p for p in pairs if "(I)" in p[0] + p[1] and p[0] in LEAVES and p[1] in LEAVES]
        must += [("Term('f', Constant(I))", "Term('f', Constant(F))"), ("Term('f', Constant(F))", "Term('f', Constant(I))"),
                 ("Term('f', Constant(F))", "Term('f', Constant(F))"), ("Term('b')", "Term(\"'b'\")")]
        rest = [p for p in pairs if p not in set(must)]
        rng.shuffle(rest)
        pairs = must + rest[:110]
    hs = [harness(i, "pair", p, 120) for i, p in enumerate(pairs)]
    eqpairs = pairs if tier != "quick" else pairs[:len(must) + 40]
    hs += [harness(5000 + i, "eq", p, 120) for i, p in enumerate(eqpairs)]
    numeric = ["Constant(I)", "Constant(F)", "Term('a')", "Term('b')", "Term('f', Constant(I))", "Term(\"'b'\")", "Term('f', Constant(F))"]
    triples = list(itertools.product(numeric, repeat=3))
    rng.shuffle(triples)
    triples = [("Term('f', Constant(I))", "Term('f', Constant(F))", "Term('a')")] + triples
    for j, t in enumerate(triples[: (26 if tier == "quick" else 343)]):
        hs.append(harness(1000 + j, "sort", t, 120))
    return hs


def main(tier, seed):
    run = Run("C15", tier, seed, "other",
              "one CrossHair condition per ordered pair of term shapes: integer leaves are symbolic (|v| <= 120, which "
              "includes multi-digit and negative numbers), float leaves range over k/2; the postcondition compares the "
              "real struct_cmp (both argument orders), compare/3, @<, @=<, @>, @>= with a reference implementation of the "
              "standard order; since the reference is a total order, agreement on all pairs gives totality, antisymmetry "
              "and transitivity. sort/2 is checked on triples: strictly ascending, duplicate-free, same elements.")
    run.functions = FUNCS
    hs = harnesses(tier, seed)
    timeout = 20 if tier == "quick" else 60
    run.assumptions = ["reference: vlib/order_ref.py (Var < Number < Atom < Compound; numbers by value, float before equal "
                       "int; atoms by their text without quotes; compounds by arity, name, arguments)",
                       "not asserted: order of distinct variables, position of strings relative to atoms/compounds",
                       "shapes enumerated (depth <= 2); quick tier: all leaf pairs with an integer + seeded sample",
                       "'Not confirmed' is inconclusive"]
    st = Stats()
    res, cpu = xh.run(hs, PREAMBLE, per_condition_timeout=timeout, per_module=3)
    byname = dict((h.name, h) for h in hs)
    for name, (verdict, detail) in sorted(res.items()):
        h = byname[name]
        okey = "%s:%s" % (h.meta["kind"], "|".join(h.meta["shapes"]))
        if verdict == "confirmed":
            st.ob("proved", key=okey)
        elif verdict == "inconclusive":
            st.ob("inconclusive", key=okey, note="%s: %s" % (okey[:90], detail[:50]))
        else:
            call = xh.parse_call(detail)
            ok = False
            if call:
                kind, val = xh.call_harness(PREAMBLE, h, call[1], call[2])
                ok = (kind == "exc") or (val is False)
            if ok:
                st.ob("refuted", key=okey)
                st.violation(classify(h.meta["shapes"], h.meta["kind"]), "%s of %s with leaves %s: %s" % (
                    h.meta["kind"], h.meta["shapes"], call[1:], "raised %r" % val if kind == "exc" else "differs from the standard order" if h.meta["kind"] != "eq" else "==/\\== disagree with the standard order"),
                    {"kind": "xh", "harness": h.source, "name": h.name, "args": list(call[1]), "kwargs": call[2]})
            else:
                st.ob("inconclusive", key=okey, note="counterexample did not replay: %s" % detail[:100])
    for h in hs[:2] + hs[-1:]:
        st["samples"].append({"harness": h.source})
    st["solver_time"] += cpu
    st["queries"] += len(hs)
    st["programs"] = len(hs)
    run.merge(st)
    run.bounds = {"crosshair_conditions": len(hs), "per_condition_timeout_s": timeout, "int_range": "|v| <= 120", "floats": "k/2, |k| <= 6"}
    run.extra["rule"] = "one obligation per ordered shape pair / sort triple"
    return run.finish()


def classify(shapes, kind="pair"):
    s = "|".join(shapes)
    unq = [x.replace("\"'", "'").replace("'\"", "'") for x in shapes]
    if kind == "eq" and len(shapes) == 2 and unq[0] == unq[1] and shapes[0] != shapes[1]:
        # the same atom / functor written with and without quotes: equal in the standard order (and unifiable), but == says no
        return "==:quoted-atom-vs-atom"
    if "\"'" in s:
        return "quoted-atom-ordered-by-its-quote"
    return ("order:" if kind != "eq" else "==:") + s


def replay(obj):
    h = xh.Harness(obj["name"], obj["harness"])
    kind, val = xh.call_harness(PREAMBLE, h, obj["args"], obj.get("kwargs") or {})
    return kind == "exc" or val is False

"""C27 User errors surface as ProbLog errors, never as crashes (E4: CrossHair over builtin x argument shapes)."""
import itertools

from vlib import xh
from vlib.common import Run, Stats
from vlib.shims import SHIM_SOURCE

FUNCS = ["problog.engine_builtin._builtin_* (is, comparisons, type tests, =.., arg, functor, compare, @<.., length, sort, between, "
         "succ, plus, atom_number, =, \\=, ==, \\==)", "problog.engine_builtin.check_mode / CallModeError",
         "problog.logic.Term.compute_value / compute_function (through is/2 and the comparisons)"]

PREAMBLE = '''
import builtins
import problog.engine_builtin as eb
from problog.logic import Term, Constant
from problog.errors import ProbLogError
from problog.engine_unify import UnifyError
''' + SHIM_SOURCE + '''

eb.int = _int
eb.float = _float


class FakeDB(object):
    def lineno(self, location):
        return None


class FakeEngine(object):
    functions = {}

    def context_min_var(self, context):
        return -10


E = FakeEngine()
KW = dict(engine=E, database=FakeDB(), location=None, context=[], target=None)


def D(n):
''' + "".join("    if n == %d:\n        return %r\n" % (k, k / 2.0) for k in range(-3, 4)) + '''    return 0.0


IVALS = [-2, -1, 0, 1, 2, 3, 10, -7, 100]


def I(j):
    """integer leaf chosen by a symbolic selector, concrete on every path"""
    k = 0
    while k < len(IVALS) - 1:
        if j == k:
            return IVALS[k]
        k += 1
    return IVALS[-1]


try:
    from crosshair.tracers import NoTracing
except ImportError:       # concrete replay outside CrossHair
    import contextlib
    NoTracing = contextlib.nullcontext


def shapes(i, n):
    """argument shapes: every mode letter's positive and negative representative"""
    a, b = Term('a'), Term('b')
    nil = Term('[]')
    return [-1, a, Constant(i), Constant(1.5), Constant('"s"'), Term('f', a), Term('f', -2),
            Term('.', a, Term('.', Constant(i), nil)), Term('.', a, -3), nil, Term('+', Constant(i), Constant(2)),
            Term('+', a, Constant(1)), Term('-', Constant(i)), Term("'<'"), Term('/', Constant(i), Constant(0))]


def call_ok(fn, args):
    """True unless the builtin raises something that is not a ProbLog error (UnifyError = failure)"""
    with NoTracing():      # the arguments are concrete once the selectors are decided
        try:
            fn(*args, **KW)
        except ProbLogError:
            return True
        except UnifyError:
            return True
    return True
'''

BUILTINS = [
    ("is", 2), ("gt", 2), ("lt", 2), ("le", 2), ("ge", 2), ("val_neq", 2), ("val_eq", 2),
    ("var", 1), ("atom", 1), ("atomic", 1), ("compound", 1), ("float", 1), ("integer", 1), ("nonvar", 1), ("number", 1),
    ("simple", 1), ("callable", 1), ("primitive", 1), ("ground", 1), ("is_list", 1), ("rational", 1), ("dbreference", 1),
    ("split_call", 2), ("arg", 3), ("functor", 3), ("struct_gt", 2), ("struct_lt", 2), ("struct_ge", 2), ("struct_le", 2),
    ("compare", 3), ("length", 2), ("sort", 2), ("between", 3), ("succ", 2), ("plus", 3), ("atom_number", 2),
    ("eq", 2), ("neq", 2), ("same", 2), ("notsame", 2),
]
NSHAPES = 15


# ---- part B: small programs through parser, grounder, cycle breaking and CNF construction ------------------------
P_HEADS = ["a", "0.3::a", "0.3::a; 0.4::b", "P::a", "0.3::f(X)", "t(_)::a", "0.3::\\\\+a", "?::d", "utility(a,3)", "1/2::a", "f(X,Y)", "1.5::a",
           "-0.1::a", "x::a", "0.3::a; 0.9::b", "a(1)", "0.5::a(1); 0.5::a(2)", "f(X)", "X", "1", "[a]", "(a,b)", "\\\\+a", "0.5::X", "0.5::1",
           "a;b", "a:b", "0.5::a:b"]
P_BODIES = ["", " :- b", " :- b, \\\\+c", " :- \\\\+a", " :- X > 1", " :- X is Y+1", " :- true", " :- fail", " :- \\\\+ \\\\+ b", " :- findall(X, q(X), L)",
            " :- call(b)", " :- X = [H|T]", " :- a", " :- between(1,3,X)", " :- X", " :- 1", " :- [a]", " :- undefined_pred(1)",
            " :- a(X), X > 1", " :- X is foo+1", " :- X is 1/0", " :- atom_length(X, Y)", " :- write(a)", " :- subquery(a, P)", " :- b ; c",
            " :- (b -> c ; d)", " :- forall(a,b)", " :- length(L, N)", " :- member(X,[1,2])", " :- assertz(q)", " :- clause(a, B)",
            " :- consult(x)", " :- \\\\+ X", " :- call(X)", " :- findall(X, Y, Z)", " :- sort(a, L)", " :- msort([b,a], L)", " :- all(X, q(X), L)",
            " :- X =.. Y", " :- functor(T, F, N)", " :- arg(N, T, A)", " :- a, !", " :- subquery(b, P, [a])", " :- cut(a)"]
P_QUERIES = ["query(a).", "query(f(X)).", "query(X).", "query(1).", "query(b).", "evidence(a). query(a).", "evidence(a,false). query(a).",
             "evidence(b,true). query(a).", "evidence(X). query(a).", "query(\\\\+a).", "evidence(\\\\+a). query(b).", "query(f(_,_)).", "query(a(X)).",
             "", "query(q(X)).", ":- query(a).", "evidence(a,maybe). query(a).", "query((a,b)).", "query([a]).", "query(a). query(a)."]
P_EXTRA = ["", "b.", "0.5::b.", "b :- a.", "0.5::c. b :- c.", "q(1). q(2).", "a :- b.", "a :- a.", "a :- \\\\+a.", "b :- \\\\+a.",
           ":- use_module(library(lists)).", ":- use_module(library(nosuch)).", ":- foo.", "0.5::q(1); 0.6::q(2)."]


def _tree(name, items):
    lines = ["def %s(j):" % name]

    def rec(lo, hi, ind):
        if hi - lo == 1:
            lines.append('%sreturn "%s"' % (ind, items[lo].replace('"', '\\"')))
            return
        mid = (lo + hi) // 2
        lines.append("%sif j < %d:" % (ind, mid))
        rec(lo, mid, ind + "    ")
        rec(mid, hi, ind)
    rec(0, len(items), "    ")
    return "\n".join(lines) + "\n"


PIPE_PREAMBLE = '''
from problog.program import PrologString
from problog.errors import ProbLogError
from problog.formula import LogicFormula, LogicDAG
from problog.cnf_formula import CNF
import contextlib
import io
try:
    from crosshair.tracers import NoTracing
except ImportError:       # concrete replay outside CrossHair
    import contextlib
    NoTracing = contextlib.nullcontext

''' + _tree("PH", P_HEADS) + "\n\n" + _tree("PB", P_BODIES) + "\n\n" + _tree("PQ", P_QUERIES) + "\n\n" + _tree("PE", P_EXTRA) + '''

def pipeline_ok(head, body, extra, query):
    """True unless parsing, grounding, cycle breaking or CNF construction raise something that is not a ProbLog error"""
    s = head + body + "." + chr(10) + extra + chr(10) + query + chr(10)
    # the text is concrete on every path (the selectors are decided): the real code runs untraced, at native speed
    with NoTracing():
        try:
            with contextlib.redirect_stdout(io.StringIO()):      # write/1 and friends must not garble CrossHair's report
                lf = LogicFormula.create_from(PrologString(s))
                dag = LogicDAG.create_from(lf)
                CNF.create_from(dag)
        except ProbLogError:
            return True
    return True
'''


def _lit(s):
    return '"%s"' % s.replace('"', '\\"')


def pipe_harnesses(tier):
    hs = []

    def h(name, params, ranges, call, meta):
        sig = ", ".join("%s: int" % p for p in params)
        pre = " and ".join("0 <= %s < %d" % (p, r) for p, r in zip(params, ranges))
        src = 'def %s(%s) -> bool:\n    """\n    pre: %s\n    post: _\n    """\n    return %s\n' % (name, sig, pre, call)
        meta["part"] = "pipeline"
        hs.append(xh.Harness(name, src, meta))
    nb, nq, ne = len(P_BODIES), len(P_QUERIES), len(P_EXTRA)
    for i, hd in enumerate(P_HEADS):
        if tier == "quick":
            h("p_head_%d" % i, ["b"], [nb], "pipeline_ok(%s, PB(b), '', 'query(a).')" % _lit(hd), {"fixed": "head %s" % hd})
        else:
            for q in range(nq):
                h("p_head_%d_%d" % (i, q), ["b", "e"], [nb, ne], "pipeline_ok(%s, PB(b), PE(e), %s)" % (_lit(hd), _lit(P_QUERIES[q])),
                  {"fixed": "head %s query %s" % (hd, P_QUERIES[q])})
    if tier == "quick":
        for q, qs in enumerate(P_QUERIES):
            h("p_query_%d" % q, ["b"], [nb], "pipeline_ok('0.3::a', PB(b), 'b.', %s)" % _lit(qs), {"fixed": "query %s" % qs})
        for e, es in enumerate(P_EXTRA):
            h("p_extra_%d" % e, ["b"], [nb], "pipeline_ok('a', PB(b), %s, 'query(a).')" % _lit(es), {"fixed": "extra %s" % es})
    return hs


def harnesses(tier):
    hs = []
    idx = 0
    for name, arity in BUILTINS:
        firsts = range(NSHAPES)
        for f in firsts:
            idx += 1
            if arity == 1:
                body = "S = shapes(I(i), n)\nreturn call_ok(eb._builtin_%s, [S[%d]])" % (name, f)
            elif arity == 2:
                body = ("S = shapes(I(i), n)\nfor y in S:\n    if not call_ok(eb._builtin_%s, [S[%d], y]):\n        return False\nreturn True"
                        % (name, f))
            else:
                zs = "S"
                body = ("S = shapes(I(i), n)\nfor y in S:\n    for z in %s:\n        if not call_ok(eb._builtin_%s, [S[%d], y, z]):\n"
                        "            return False\nreturn True" % (zs, name, f))
            src = 'def h_%d(i: int, n: int) -> bool:\n    """\n    pre: 0 <= i <= 8 and n == 0\n    post: _\n    """\n%s\n' % (
                idx, "\n".join("    " + l for l in body.split("\n")))
            hs.append(xh.Harness("h_%d" % idx, src, {"builtin": name, "arity": arity, "first": f}))
    return hs


def main(tier, seed):
    run = Run("C27", tier, seed, "other",
              "one CrossHair condition per (builtin, shape of the first argument): the remaining arguments range over the same 15 "
              "shapes (every mode letter's positive and negative representative: variable, atom, integer, float, string, compound, "
              "non-ground compound, list, partial list, [], arithmetic expressions incl. an ill-typed one and a division by zero) "
              "with symbolic integer / float leaves; CrossHair reports any exception that is not a ProbLogError. Part B: small programs "
              "assembled by symbolic selectors (decision trees) run through parser, grounder, cycle breaking and CNF construction")
    run.functions = FUNCS
    run.assumptions = ["builtin layer: shapes enumerated; the integer leaf is chosen by a symbolic selector among -7,-2,-1,0,1,2,3,10,100 and is concrete (astronomically large integers, which end in MemoryError for length/2 and functor/3, are resource limits outside the claim) on "
                       "every path, so the builtin itself runs untraced (NoTracing) and every condition is exhausted; the float leaf is 1.5",
                       "UnifyError is the internal failure signal of a builtin and is accepted",
                       "part B (pipeline): program text = head + body + extra clause + query lines, each chosen by a symbolic selector from "
                       "lists of 28 heads, 44 bodies, 20 query/evidence forms, 14 extra clauses (well-formed and malformed: undefined "
                       "predicates, non-ground probabilistic heads, invalid probabilities, unbound calls, cut, negative loops, self-referring "
                       "subquery, missing library ...); the real parser, grounder, cycle breaking and CNF construction run on every path; "
                       "knowledge compilation and evaluation (dsharp subprocess) are not run inside CrossHair - evaluation-time "
                       "rejections are C30's subject; malformed token sequences are C17's"]
    hs = harnesses(tier)
    timeout = 60 if tier == "quick" else 600
    st = Stats()
    res, cpu = xh.run(hs, PREAMBLE, per_condition_timeout=timeout, per_module=8)
    byname = dict((h.name, h) for h in hs)
    for name, (verdict, detail) in sorted(res.items()):
        h = byname[name]
        okey = "%s/%d:first-arg-shape-%d" % (h.meta["builtin"], h.meta["arity"], h.meta["first"])
        if verdict == "confirmed":
            st.ob("proved", key=okey)
        elif verdict == "inconclusive":
            st.ob("inconclusive", key=okey, note="%s: %s" % (okey, detail[:60]))
        else:
            call = xh.parse_call(detail)
            exc = None
            if call:
                kind, val = xh.call_harness(PREAMBLE, h, call[1], call[2])
                if kind == "exc":
                    exc = val
            if exc is not None:
                st.ob("refuted", key=okey)
                from vlib.semcheck import call_site
                st.violation("%s/%d:%s" % (h.meta["builtin"], h.meta["arity"], type(exc).__name__),
                             "builtin %s/%d raised %s: %s (first argument shape %d, leaves %s) at %s" % (
                                 h.meta["builtin"], h.meta["arity"], type(exc).__name__, exc, h.meta["first"], call[1:], call_site(exc)),
                             {"kind": "xh", "harness": h.source, "name": h.name, "args": list(call[1]), "kwargs": call[2]})
            else:
                st.ob("inconclusive", key=okey, note="counterexample did not replay: %s" % detail[:100])
    # part B: programs through the pipeline
    phs = pipe_harnesses(tier)
    pres, pcpu = xh.run(phs, PIPE_PREAMBLE, per_condition_timeout=90 if tier == "quick" else 900, per_module=2)
    pby = dict((h.name, h) for h in phs)
    for name, (verdict, detail) in sorted(pres.items()):
        h = pby[name]
        okey = "pipeline:%s" % h.meta["fixed"]
        if verdict == "confirmed":
            st.ob("proved", key=okey)
        elif verdict == "inconclusive":
            st.ob("inconclusive", key=okey, note="%s: %s" % (okey, detail[:60]))
        else:
            call = xh.parse_call(detail)
            exc = None
            if call:
                kind, val = xh.call_harness(PIPE_PREAMBLE, h, call[1], call[2])
                if kind == "exc":
                    exc = val
            if exc is not None:
                from vlib.semcheck import call_site
                st.ob("refuted", key=okey)
                st.violation("pipeline:%s@%s" % (type(exc).__name__, call_site(exc)),
                             "a small program raised %s: %s at %s (%s, selectors %s)" % (type(exc).__name__, str(exc)[:120], call_site(exc), h.meta["fixed"], call[1:]),
                             {"kind": "pipeline", "harness": h.source, "name": h.name, "args": list(call[1]), "kwargs": call[2]})
            else:
                st.ob("inconclusive", key=okey, note="counterexample did not replay: %s" % detail[:100])
    cpu += pcpu
    st["samples"].append({"harness": hs[0].source})
    st["samples"].append({"harness": hs[len(hs) // 2].source})
    st["samples"].append({"harness": phs[0].source})
    hs = hs + phs
    st["solver_time"] += cpu
    st["queries"] += len(hs)
    st["programs"] = len(hs)
    run.merge(st)
    run.bounds = {"crosshair_conditions": len(hs), "builtins": len(BUILTINS), "shapes": NSHAPES, "per_condition_timeout_s": timeout}
    run.extra["rule"] = "one obligation per builtin and first-argument shape (the other arguments are looped over all shapes inside the condition)"
    return run.finish()


def replay(obj):
    h = xh.Harness(obj["name"], obj["harness"])
    kind, val = xh.call_harness(PIPE_PREAMBLE if obj.get("kind") == "pipeline" else PREAMBLE, h, obj["args"], obj.get("kwargs") or {})
    return kind == "exc"

"""C27 User errors surface as ProbLog errors, never as crashes (E4: CrossHair over builtin x argument shapes)."""
import itertools

from vlib import xh
from vlib.common import Run, Stats
from vlib.shims import SHIM_SOURCE

FUNCS = ["problog.engine_builtin._builtin_* (is, comparisons, type tests, =.., arg, functor, compare, @<.., length, sort, between, "
         "succ, plus, atom_number, =, \\=, ==, \\==)", "problog.engine_builtin.check_mode / CallModeError",
         "problog.logic.Term.compute_value / compute_function (through is/2 and the comparisons)"]

PREAMBLE = '''
import builtins
import problog.engine_builtin as eb
from problog.logic import Term, Constant
from problog.errors import ProbLogError
from problog.engine_unify import UnifyError
''' + SHIM_SOURCE + '''

eb.int = _int
eb.float = _float


class FakeDB(object):
    def lineno(self, location):
        return None


class FakeEngine(object):
    functions = {}

    def context_min_var(self, context):
        return -10


E = FakeEngine()
KW = dict(engine=E, database=FakeDB(), location=None, context=[], target=None)


def D(n):
''' + "".join("    if n == %d:\n        return %r\n" % (k, k / 2.0) for k in range(-3, 4)) + '''    return 0.0


def shapes(i, n):
    """argument shapes: every mode letter's positive and negative representative"""
    a, b = Term('a'), Term('b')
    nil = Term('[]')
    return [-1, a, Constant(i), Constant(1.5), Constant('"s"'), Term('f', a), Term('f', -2),
            Term('.', a, Term('.', Constant(i), nil)), Term('.', a, -3), nil, Term('+', Constant(i), Constant(2)),
            Term('+', a, Constant(1)), Term('-', Constant(i)), Term("'<'"), Term('/', Constant(i), Constant(0))]


def call_ok(fn, args):
    """True unless the builtin raises something that is not a ProbLog error (UnifyError = failure)"""
    try:
        fn(*args, **KW)
    except ProbLogError:
        return True
    except UnifyError:
        return True
    return True
'''

BUILTINS = [
    ("is", 2), ("gt", 2), ("lt", 2), ("le", 2), ("ge", 2), ("val_neq", 2), ("val_eq", 2),
    ("var", 1), ("atom", 1), ("atomic", 1), ("compound", 1), ("float", 1), ("integer", 1), ("nonvar", 1), ("number", 1),
    ("simple", 1), ("callable", 1), ("primitive", 1), ("ground", 1), ("is_list", 1), ("rational", 1), ("dbreference", 1),
    ("split_call", 2), ("arg", 3), ("functor", 3), ("struct_gt", 2), ("struct_lt", 2), ("struct_ge", 2), ("struct_le", 2),
    ("compare", 3), ("length", 2), ("sort", 2), ("between", 3), ("succ", 2), ("plus", 3), ("atom_number", 2),
    ("eq", 2), ("neq", 2), ("same", 2), ("notsame", 2),
]
NSHAPES = 15


def harnesses(tier):
    hs = []
    idx = 0
    for name, arity in BUILTINS:
        firsts = range(NSHAPES)
        for f in firsts:
            idx += 1
            if arity == 1:
                body = "S = shapes(i, n)\nreturn call_ok(eb._builtin_%s, [S[%d]])" % (name, f)
            elif arity == 2:
                body = ("S = shapes(i, n)\nfor y in S:\n    if not call_ok(eb._builtin_%s, [S[%d], y]):\n        return False\nreturn True"
                        % (name, f))
            else:
                zs = "S" if tier == "thorough" else "(S[::3] + [S[7]])"
                body = ("S = shapes(i, n)\nfor y in S:\n    for z in %s:\n        if not call_ok(eb._builtin_%s, [S[%d], y, z]):\n"
                        "            return False\nreturn True" % (zs, name, f))
            src = 'def h_%d(i: int, n: int) -> bool:\n    """\n    pre: -2 <= i <= 2 and n == 0\n    post: _\n    """\n%s\n' % (
                idx, "\n".join("    " + l for l in body.split("\n")))
            hs.append(xh.Harness("h_%d" % idx, src, {"builtin": name, "arity": arity, "first": f}))
    return hs


def main(tier, seed):
    run = Run("C27", tier, seed, "other",
              "one CrossHair condition per (builtin, shape of the first argument): the remaining arguments range over the same 15 "
              "shapes (every mode letter's positive and negative representative: variable, atom, integer, float, string, compound, "
              "non-ground compound, list, partial list, [], arithmetic expressions incl. an ill-typed one and a division by zero) "
              "with symbolic integer / float leaves; CrossHair reports any exception that is not a ProbLogError")
    run.functions = FUNCS
    run.assumptions = ["only the builtin layer is covered: shapes enumerated, integer leaves symbolic in [-2,2]; the float leaf is the constant 1.5 (CrossHair does not exhaust symbolic floats)",
                       "UnifyError is the internal failure signal of a builtin and is accepted",
                       "NOT covered (CrossHair cannot explore the parser or the engine on symbolic text within reach: 'Not confirmed' "
                       "after 60-100 s at 3 characters): malformed syntax, undefined predicates, non-ground probabilistic clauses; "
                       "invalid probabilities are C30's subject"]
    hs = harnesses(tier)
    timeout = 6 if tier == "quick" else 240
    st = Stats()
    res, cpu = xh.run(hs, PREAMBLE, per_condition_timeout=timeout, per_module=8)
    byname = dict((h.name, h) for h in hs)
    for name, (verdict, detail) in sorted(res.items()):
        h = byname[name]
        okey = "%s/%d:first-arg-shape-%d" % (h.meta["builtin"], h.meta["arity"], h.meta["first"])
        if verdict == "confirmed":
            st.ob("proved", key=okey)
        elif verdict == "inconclusive":
            st.ob("inconclusive", key=okey, note="%s: %s" % (okey, detail[:60]))
        else:
            call = xh.parse_call(detail)
            exc = None
            if call:
                kind, val = xh.call_harness(PREAMBLE, h, call[1], call[2])
                if kind == "exc":
                    exc = val
            if exc is not None:
                st.ob("refuted", key=okey)
                from vlib.semcheck import call_site
                st.violation("%s/%d:%s" % (h.meta["builtin"], h.meta["arity"], type(exc).__name__),
                             "builtin %s/%d raised %s: %s (first argument shape %d, leaves %s) at %s" % (
                                 h.meta["builtin"], h.meta["arity"], type(exc).__name__, exc, h.meta["first"], call[1:], call_site(exc)),
                             {"kind": "xh", "harness": h.source, "name": h.name, "args": list(call[1]), "kwargs": call[2]})
            else:
                st.ob("inconclusive", key=okey, note="counterexample did not replay: %s" % detail[:100])
    st["samples"].append({"harness": hs[0].source})
    st["samples"].append({"harness": hs[len(hs) // 2].source})
    st["solver_time"] += cpu
    st["queries"] += len(hs)
    st["programs"] = len(hs)
    run.merge(st)
    run.bounds = {"crosshair_conditions": len(hs), "builtins": len(BUILTINS), "shapes": NSHAPES, "per_condition_timeout_s": timeout}
    run.extra["rule"] = "one obligation per builtin and first-argument shape (the other arguments are looped over all shapes inside the condition)"
    return run.finish()


def replay(obj):
    h = xh.Harness(obj["name"], obj["harness"])
    kind, val = xh.call_harness(PREAMBLE, h, obj["args"], obj.get("kwargs") or {})
    return kind == "exc"

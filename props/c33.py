"""C33 The soft-cut library picks the lowest-indexed applicable rule (E1 + SMT reference)."""
import random

from vlib import gen, semcheck
from vlib.common import Run, Stats, pmap
from vlib.gen import A, P, N

FUNCS = ["problog/library/cut.pl cut/1, cut/2, cut/4", "problog.engine_builtin._builtin_all / _builtin_sort / struct_cmp (through the library)",
         "problog.engine_builtin._builtin_clause, _builtin_split_call (=..)", "evaluation pipeline as in C01"]


def skeleton(rng, prob_heads=False):
    nf = rng.randint(2, 4)
    facts = [("ad", [("p%d" % (i + 1), A("f%d" % i))], []) for i in range(nf)]
    atoms = [A("f%d" % i) for i in range(nf)]
    k = rng.randint(2, 6)
    idx = rng.sample(range(1, 16), k)          # shuffled file order, multi-digit indices
    rules = []
    for i in idx:
        val = rng.choice(["a", "b", "c"])
        body = []
        for _ in range(rng.choice([0, 1, 1, 2])):
            body.append((rng.choice(atoms), rng.random() < 0.3))
        body = [l for l in body if not l[1]] + [l for l in body if l[1]]
        rules.append((i, val, body))
    if all(not b for _, _, b in rules) or rng.random() < 0.2:
        # make sure that not every rule is unconditional
        j = rng.randrange(len(rules))
        rules[j] = (rules[j][0], rules[j][1], [P(rng.choice(atoms))])
    rules = [r + (None,) for r in rules]
    if prob_heads:
        # family with probabilistic rule heads: the rule is applicable when its own choice is true and its guard holds
        k = nf
        for j in rng.sample(range(len(rules)), rng.randint(1, min(2, len(rules)))):
            k += 1
            rules[j] = rules[j][:3] + ("p%d" % k,)
    return facts, rules


def real_text(facts, rules):
    lines = [":- use_module(library(cut))."] + [gen.stmt_str(s) for s in facts]
    for i, val, body, hp in rules:
        head = ("%s::" % hp if hp else "") + "r(%d,%s)" % (i, val)
        lines.append(head + (" :- " + ", ".join(gen.lit_str(l) for l in body) if body else "") + ".")
    lines += ["q(V) :- cut(r(V)).", "qi(I) :- cut(r(V), I).", "qv(I,V) :- cut(r(V), I).",
              "query(q(X)).", "query(qi(X)).", "query(qv(X,Y))."]
    return "\n".join(lines) + "\n"


def reference(facts, rules):
    """pick_i <=> g_i and no applicable rule with a numerically smaller index"""
    prog = list(facts)
    order = sorted(rules, key=lambda r: r[0])
    for i, val, body, hp in rules:
        if hp:
            prog.append(("ad", [(hp, A("g%d" % i))], list(body)))
        else:
            prog.append(("rule", A("g%d" % i), list(body)) if body else ("fact", A("g%d" % i)))
    for n, (i, val, body, hp) in enumerate(order):
        prog.append(("rule", A("pick%d" % i), [P(A("g%d" % i))] + [N(A("g%d" % r[0])) for r in order[:n]]))
        prog.append(("rule", A("q", val), [P(A("pick%d" % i))]))
        prog.append(("rule", A("qi", str(i)), [P(A("pick%d" % i))]))
        prog.append(("rule", A("qv", str(i), val), [P(A("pick%d" % i))]))
    prog += [("query", A("q", "X")), ("query", A("qi", "X")), ("query", A("qv", "X", "Y"))]
    return prog


def work(item):
    name, seedstr = item
    rng = random.Random(seedstr)
    facts, rules = skeleton(rng, prob_heads=seedstr.startswith("c33p/"))
    text = real_text(facts, rules)
    st = semcheck.check_semantics(reference(facts, rules), name, text=text)
    for s in st["samples"]:
        s["program"] = text
    return st


def main(tier, seed):
    run = Run("C33", tier, seed, "translation_validation",
              "each indexed rule set r(I,V) :- guard_I (indices a shuffled subset of 1..15, guards over probabilistic facts with "
              "symbolic weights) is queried through cut/1 and cut/2 of the real library; z3 proves for all worlds and all "
              "parameter values that the answers and the returned index are those of the applicable rule with the numerically "
              "smallest index (reference: pick_i <=> g_i and not g_j for every j < i)")
    run.functions = FUNCS
    run.assumptions = ["one rule per index, ground rule heads (deterministic, or probabilistic with a symbolic probability in the second family), guards are conjunctions of (negated) probabilistic facts",
                       "rule sets enumerated (seeded): 2-6 rules, indices 1..15 in shuffled file order", "reference vlib/refsem.py"]
    n = 80 if tier == "quick" else 2000
    items = [("cut/%d/%d" % (seed, i), "c33/%s/%s" % (seed, i)) for i in range(n)]
    items += [("cut-probhead/%d/%d" % (seed, i), "c33p/%s/%s" % (seed, i)) for i in range(n // 2)]
    run.bounds = {"rule_sets": len(items), "max_rules": 6, "indices": "1..15"}
    for st in pmap(work, items, item_timeout=120):
        run.merge(st)
    return run.finish()


def replay(obj):
    return semcheck.replay_semantics(obj)["reproduced"]

"""C18 Term equality is an equivalence consistent with hashing (E4: CrossHair, leaves symbolic)."""
import itertools
import random

from vlib import xh
from vlib.common import Run, Stats

FUNCS = ["problog.logic.Term.__eq__ / __hash__", "problog.logic.Constant.__eq__ / __hash__", "problog.logic.Var.__eq__ / __hash__",
         "problog.logic.Not / And / Or constructors", "problog.engine_unify.unify_value (identity of ground terms)"]

PREAMBLE = '''
from problog.logic import Term, Constant, Var, Not, And, Or
from problog.engine_unify import unify_value, UnifyError, OccursCheck


def D(n):
''' + "".join("    if n == %d:\n        return %r\n" % (k, k / 2.0) for k in range(-4, 5)) + '''    return 0.0


def L(items):
    t = Term('[]')
    for x in reversed(items):
        t = Term('.', x, t)
    return t


def PT(text):
    """the term the parser builds for this text (list literals go through PrologFactory.build_list)"""
    return Term.from_string(text)


def ground(t):
    return isinstance(t, Term) and t.is_ground()


def unify_identical(a, b):
    try:
        unify_value(a, b, {})
        return True
    except (UnifyError, OccursCheck):
        return False


def pair_ok(a, b):
    """'' or the law that fails"""
    if not (a == a) or not (b == b):
        return "reflexivity"
    ab, ba = (a == b), (b == a)
    if bool(ab) != bool(ba):
        return "symmetry"
    if (a != b) == bool(ab):
        return "!= is not the negation of =="
    if ab and hash(a) != hash(b):
        return "equal terms with different hashes"
    if ground(a) and ground(b) and bool(ab) != unify_identical(a, b):
        return "== differs from identity under unification"
    return ""


def triple_ok(a, b, c):
    if a == b and b == c and not (a == c):
        return "transitivity"
    return ""
'''

SHAPES = ["Term('a')", "Term(\"'a'\")", "Term('b')", "Constant(I)", "Constant(F)", "Constant('\"a\"')", "Constant('a')", "Constant('1')",
          "Var('X')", "Term('X')", "Term('f', Constant(I))", "Term('f', Constant(F))", "Term('f', Term('a'))", "Term('f', Term(\"'a'\"))",
          "Term('f', Var('X'))", "Term('f', -1)", "Not('\\\\+', Term('a'))", "Not('not', Term('a'))", "Term('\\\\+', Term('a'))",
          "And(Term('a'), Term('b'))", "Term(',', Term('a'), Term('b'))", "Or(Term('a'), Term('b'))",
          "L([Constant(I), Term('a')])", "L([Term('a')] * 10 + [Constant(I)])", "L([Term('a')] * 11 + [Constant(I)])",
          "Term('g', Constant(I), Constant(I))", "Term('f', Term('f', Constant(I)))"]
# list terms as the parser builds them (bar syntax with list tails) next to the same lists built cell by cell
PARSED = ["PT('[a,b,c]')", "PT('[a|[b,c]]')", "PT('[a,b|[c]]')", "PT('[a|[b|[c]]]')", "L([Term('a'), Term('b'), Term('c')])",
          "PT('f([a|[b,c]],x)')", "Term('f', L([Term('a'), Term('b'), Term('c')]), Term('x'))", "PT('[a|T]')", "PT('[a,b|T]')",
          "PT('[[a]|[[b]]]')", "L([L([Term('a')]), L([Term('b')])])"]


def instantiate(tpl, k0):
    out, names, k, i = "", [], k0, 0
    while i < len(tpl):
        if tpl.startswith("Constant(I)", i):
            k += 1
            names.append(("i%d" % k, "int"))
            out += "Constant(i%d)" % k
            i += 11
        elif tpl.startswith("Constant(F)", i):
            k += 1
            names.append(("n%d" % k, "sel"))
            out += "Constant(D(n%d))" % k
            i += 11
        else:
            out += tpl[i]
            i += 1
    return out, names, k


def harness(idx, tpls):
    exprs, names, k = [], [], 0
    for t in tpls:
        e, n, k = instantiate(t, k)
        exprs.append(e)
        names += n
    sig = ", ".join("%s: int" % n for n, _ in names)
    pre = " and ".join([("-3 <= %s <= 3" % n) if t == "int" else ("-4 <= %s <= 4" % n) for n, t in names]) or "True"
    kind = "pair" if len(tpls) == 2 else "triple"
    name = "h_%s_%d" % (kind, idx)
    body = "    return %s_ok(%s)" % (kind, ", ".join(exprs))
    src = 'def %s(%s) -> str:\n    """\n    pre: %s\n    post: _ == ""\n    """\n%s\n' % (name, sig, pre, body)
    return xh.Harness(name, src, {"kind": kind, "shapes": list(tpls)})


def harnesses(tier, seed):
    rng = random.Random("c18/%s" % seed)
    pairs = list(itertools.combinations_with_replacement(SHAPES, 2))
    if tier == "quick":
        rng.shuffle(pairs)
        same = [(s, s) for s in SHAPES]
        pairs = same + [p for p in pairs if p[0] != p[1]][:150]
    pairs += list(itertools.combinations_with_replacement(PARSED, 2))
    hs = [harness(i, p) for i, p in enumerate(pairs)]
    small = ["Term('a')", "Term(\"'a'\")", "Constant(I)", "Constant(F)", "Constant('1')", "Var('X')", "Term('X')", "Term('f', Constant(I))",
             "Not('\\\\+', Term('a'))", "Not('not', Term('a'))", "Term('\\\\+', Term('a'))", "Constant('a')"]
    triples = list(itertools.product(small, repeat=3))
    rng.shuffle(triples)
    for j, t in enumerate(triples[: (60 if tier == "quick" else 1728)]):
        hs.append(harness(5000 + j, t))
    return hs


def classify(shapes, law):
    """narrow classes of known deviations; anything else keeps law + shapes as its key"""
    txt = "|".join(shapes)
    generic = any(x in ("Term('X')", "Term(',', Term('a'), Term('b'))", "Term('\\\\+', Term('a'))") for x in shapes)
    special = any(x.startswith(("Var(", "And(", "Or(", "Not(")) or "Var('X')" in x for x in shapes)
    if any(x in ("Constant('a')", "Constant('1')") for x in shapes):
        return "Constant-compares-by-text"
    if any(x.startswith("Not('not'") for x in shapes) and any(x.startswith("Not('\\\\+'") for x in shapes) \
            and law == "== differs from identity under unification":
        return "negation-spellings-equal-but-do-not-unify"
    if (generic and special) or (any("Var('X')" in x for x in shapes) and "Term('X')" in txt):
        return "subclass-vs-generic-Term"
    if "\"'a'\"" in txt and law == "== differs from identity under unification":
        return "quoted-atom-vs-atom:unifies-but-not-equal"
    return "%s:%s" % (law, txt)


def main(tier, seed):
    run = Run("C18", tier, seed, "other",
              "one CrossHair condition per pair / triple of term shapes built with the public constructors; integer leaves "
              "symbolic (|v| <= 3, equality only depends on equality of leaves), floats k/2; postcondition: reflexive, "
              "symmetric, != is the negation, equal => equal hashes, ground: == <=> unification treats them as identical; "
              "triples: transitive.")
    run.functions = FUNCS
    hs = harnesses(tier, seed)
    timeout = 15 if tier == "quick" else 45
    run.assumptions = ["shapes enumerated over the constructors named in the property (atoms vs quoted atoms, Constant vs Term, "
                       "\\+ vs not, ints vs floats, lists crossing the hash cut-off of 10 elements, nested compounds, Var)",
                       "string leaves come from a fixed pool (hash() of a symbolic string is realised by CrossHair)",
                       "'Not confirmed' is inconclusive"]
    st = Stats()
    res, cpu = xh.run(hs, PREAMBLE, per_condition_timeout=timeout, per_module=4)
    byname = dict((h.name, h) for h in hs)
    for name, (verdict, detail) in sorted(res.items()):
        h = byname[name]
        okey = "%s:%s" % (h.meta["kind"], "|".join(h.meta["shapes"]))
        if verdict == "confirmed":
            st.ob("proved", key=okey)
        elif verdict == "inconclusive":
            st.ob("inconclusive", key=okey, note="%s: %s" % (okey[:90], detail[:50]))
        else:
            call = xh.parse_call(detail)
            rep = None
            if call:
                kind, val = xh.call_harness(PREAMBLE, h, call[1], call[2])
                rep = ("raised %r" % val) if kind == "exc" else (val or None)
            if rep:
                st.ob("refuted", key=okey)
                st.violation(classify(h.meta["shapes"], rep), "%s with leaves %s: %s" % (h.meta["shapes"], call[1:], rep),
                             {"kind": "xh", "harness": h.source, "name": h.name, "args": list(call[1]), "kwargs": call[2]})
            else:
                st.ob("inconclusive", key=okey, note="counterexample did not replay: %s" % detail[:100])
    for h in hs[:1] + hs[-1:]:
        st["samples"].append({"harness": h.source})
    st["solver_time"] += cpu
    st["queries"] += len(hs)
    st["programs"] = len(hs)
    run.merge(st)
    run.bounds = {"crosshair_conditions": len(hs), "per_condition_timeout_s": timeout, "shapes": len(SHAPES)}
    run.extra["rule"] = "one obligation per shape pair / triple"
    return run.finish()


def replay(obj):
    h = xh.Harness(obj["name"], obj["harness"])
    kind, val = xh.call_harness(PREAMBLE, h, obj["args"], obj.get("kwargs") or {})
    return kind == "exc" or val != ""

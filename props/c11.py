"""C11 The ground-program builder preserves Boolean meaning (E3: SAT over all atom assignments)."""
import itertools
import random

import z3

from vlib import tv, builder
from vlib.builder import Session, Rejected
from vlib.common import Run, Stats, pmap, short_hash
from vlib.semcheck import call_site

FUNCS = ["problog.formula.LogicFormula.{add_atom,add_and,add_or,add_disjunct,negate,add_name,_add_compound,_add,"
         "_update,get_names_with_label}", "problog.constraint.ConstraintAD.add (through add_atom with a group)"]

OPTION_VECTORS = [
    {}, {"auto_compact": False}, {"keep_order": True}, {"keep_duplicates": True}, {"keep_all": True},
    {"avoid_name_clash": True}, {"max_arity": 2}, {"max_arity": 3, "keep_duplicates": True},
    {"keep_all": True, "avoid_name_clash": True}, {"auto_compact": False, "max_arity": 2},
    {"keep_order": True, "avoid_name_clash": True, "max_arity": 2},
]

LABEL_QUERY = "query"


def atoms_of(model, idents):
    out = {}
    for i in idents:
        out[str(i)] = z3.is_true(model.eval(tv.atom_var(i), model_completion=True))
    return out


def check_sequence(item):
    """item = (name, opts, ops, mode) ; mode 'each' compares every slot after every step."""
    name, opts, ops, mode = item
    st = Stats()
    st["programs"] = 1
    sat = tv.Sat(10000)
    try:
        ses = Session(opts)
    except Exception as e:
        st.harness_error("cannot create LogicFormula(%s): %r" % (opts, e))
        return st
    skey = short_hash([opts, ops])
    optkey = ",".join("%s=%s" % kv for kv in sorted(opts.items())) or "default"
    done = []
    idents = set()

    def violation(kind, what, assignment):
        bad = builder.replay_sequence(opts, done, assignment)
        if bad:
            st.violation("%s:%s" % (kind, optkey), "%s :: differing slots %s under atoms %s" % (what, bad[:4], assignment),
                         {"kind": "c11", "opts": opts, "ops": [list(o) for o in done], "assignment": assignment})
            return True
        return False

    def compare(which):
        try:
            impl, spec = ses.encodings()
        except tv.NegCycle:
            st.ob("inconclusive", note="negative cycle in generated sequence (generator bug?)")
            return
        for i in which:
            k, s, info = ses.slots[i]
            okey = "%s:%d:%d" % (skey, len(done), i)
            try:
                a = tv.lit_of(impl, k)
            except (KeyError, TypeError):
                ok = violation("invalid-key", "slot %d (%s): builder returned %r which is not a key of the formula"
                               % (i, info, k), {})
                st.ob("refuted" if ok else "inconclusive", key=okey)
                continue
            b = tv.lit_of(spec, s)
            r, m = sat.check(z3.Xor(a, b))
            if r == "unsat":
                st.ob("proved", key=okey if (k not in (0, None)) else None)
            elif r == "sat":
                asg = atoms_of(m, idents)
                ok = violation("meaning:%s" % info, "slot %d (%s) key %r does not denote the function the calls "
                               "describe" % (i, info, k), asg)
                if ok:
                    st.ob("refuted", key=okey)
                else:
                    st.harness_error("C11 model did not replay: %s %s slot %d" % (opts, done, i))
            else:
                st.ob("inconclusive", key=okey, note="z3 unknown")
        for nm, label, k, cands in ses.named_keys():
            okey = "%s:%d:name:%s" % (skey, len(done), nm)
            try:
                a = tv.lit_of(impl, k)
            except (KeyError, TypeError):
                ok = violation("invalid-named-key", "name %s maps to %r" % (nm, k), {})
                st.ob("refuted" if ok else "inconclusive", key=okey)
                continue
            r, m = sat.check(z3.And(*[z3.Xor(a, tv.lit_of(spec, s)) for s in cands]))
            if r == "unsat":
                st.ob("proved", key=okey)
            elif r == "sat":
                asg = atoms_of(m, idents)
                ok = violation("name", "name %s (label %s) maps to key %r with a different meaning" % (nm, label, k), asg)
                if ok:
                    st.ob("refuted", key=okey)
                else:
                    st.harness_error("C11 name model did not replay: %s %s %s" % (opts, done, nm))
            else:
                st.ob("inconclusive", key=okey, note="z3 unknown")

    for op in ops:
        op = tuple(op)
        try:
            ses.step(op)
        except Rejected:
            done.append(op)
            continue
        except Exception as e:
            done.append(op)
            site = call_site(e)
            st.violation("raised:%s@%s" % (type(e).__name__, site),
                         "builder call %r raised %s: %s (after %r, options %s)" % (op, type(e).__name__, e, done[:-1], opts),
                         {"kind": "c11", "opts": opts, "ops": [list(o) for o in done], "assignment": {}, "raises": type(e).__name__})
            st.ob("refuted", key="raise:" + skey)
            break
        done.append(op)
        if op[0] == "atom":
            idents.add(op[1])
        if op[0] == "name":
            continue
        if mode == "each" or op[0] == "disjunct":
            compare(range(len(ses.slots)))
        else:
            compare([len(ses.slots) - 1])
    else:
        compare(range(len(ses.slots)))
    if len(st["samples"]) < 1 and len(done) > 3:
        st["samples"].append({"name": name, "options": opts, "ops": [list(o) for o in done[:12]], "nodes": len(ses.lf)})
    st["solver_time"] += sat.solver_time
    st["queries"] += sat.queries
    return st


# ---------------------------------------------------------------------------------------------
# sequence generation

class SeqGen(object):
    """Random call sequences that never create a cycle through negation (strata on mutable nodes)."""

    def __init__(self, rng, n_atoms, keep_all):
        self.r = rng
        self.ops = []
        self.meta = []   # per slot: (lvl, nlvl, kind, stratum)
        self.n_atoms = n_atoms
        self.keep_all = keep_all
        self.nn = 0

    def _push(self, op, lvl, nlvl, kind, stratum=None):
        self.ops.append(op)
        if op[0] != "name":
            self.meta.append((lvl, nlvl, kind, stratum))

    def atoms(self):
        r = self.r
        for i in range(self.n_atoms):
            pk = "p"
            x = r.random()
            if x < 0.08:
                pk = "none"
            elif x < 0.12:
                pk = "false" if not self.keep_all else "p"
            group = None
            if pk == "p" and r.random() < 0.25:
                group = "g%d" % r.randint(1, 2)
            self._push(("atom", i, pk, group), 0, -1, "atom")

    def operand(self, max_lvl=99, max_nlvl=99):
        r = self.r
        for _ in range(20):
            x = r.random()
            if x < 0.06:
                return ("T",), 0, -1
            if x < 0.12:
                return ("F",), 0, -1
            slot = r.randrange(len(self.meta))
            # bias to recent slots
            if r.random() < 0.4:
                slot = max(0, len(self.meta) - 1 - r.randrange(min(6, len(self.meta))))
            lvl, nlvl, kind, _ = self.meta[slot]
            if kind == "ret":
                continue
            neg = r.random() < 0.3
            if neg:
                nlvl = max(nlvl, lvl)
            if lvl <= max_lvl and nlvl <= max_nlvl:
                return ("k", slot, neg), lvl, nlvl
        return ("k", 0, False), 0, -1

    def name(self):
        self.nn += 1
        return "n%d" % self.nn

    def step(self):
        r = self.r
        x = r.random()
        muts = [i for i, m in enumerate(self.meta) if m[2] == "mor"]
        if x < 0.3:
            n = r.choice([1, 2, 2, 2, 3, 4])
            ops = [self.operand() for _ in range(n)]
            kw = {}
            if r.random() < 0.3:
                kw["name"] = self.name()
            if r.random() < 0.1:
                kw["compact"] = r.random() < 0.5
            self._push(("and", [o for o, _, _ in ops], kw), max(l for _, l, _ in ops), max(n_ for _, _, n_ in ops), "and")
        elif x < 0.55:
            n = r.choice([1, 2, 2, 2, 3, 4])
            ops = [self.operand() for _ in range(n)]
            kw = {}
            if r.random() < 0.3:
                kw["name"] = self.name()
            if r.random() < 0.1:
                kw["compact"] = r.random() < 0.5
            self._push(("or", [o for o, _, _ in ops], kw), max(l for _, l, _ in ops), max(n_ for _, _, n_ in ops), "or")
        elif x < 0.7:
            L = r.randint(1, 3)
            ph = r.random() < 0.5
            n = 0 if ph else r.choice([1, 2, 2, 3])
            ops = [self.operand(L, L - 1) for _ in range(n)]
            kw = {"readonly": False, "placeholder": ph}
            if r.random() < 0.3:
                kw["name"] = self.name()
            self._push(("or", [o for o, _, _ in ops], kw), L, L - 1, "mor", L)
        elif x < 0.9 and muts:
            j = r.choice(muts)
            L = self.meta[j][3]
            o, l, n_ = self.operand(L, L - 1)
            self._push(("disjunct", j, o), L, L - 1, "ret")
        elif x < 0.95:
            o, l, n_ = self.operand()
            if o[0] == "k":
                self._push(("neg", o[1]), l, max(n_, l), "neg")
        else:
            o, l, n_ = self.operand()
            if o[0] == "k":
                self.nn += 1
                self.ops.append(("name", o[1], "q%d" % self.nn, LABEL_QUERY))

    def generate(self, length):
        self.atoms()
        for _ in range(length):
            self.step()
        return self.ops


def exhaustive_sequences(depth, wide):
    """All sequences of `depth` compound calls over two atoms a, b (pre-added), operands drawn from
    {TRUE, FALSE, +-a, +-b, +-earlier results}; binary and/or (readonly), unary/binary mutable or,
    placeholder, add_disjunct on an earlier mutable node."""
    base = [("atom", 0, "p", None), ("atom", 1, "p", None)]

    def operands(nslots, meta):
        ops = [("T",), ("F",)] if wide else [("F",)]
        for s in range(nslots):
            if meta[s] == "ret":
                continue
            ops.append(("k", s, False))
            ops.append(("k", s, True))
        return ops

    def rec(seq, meta, d):
        if d == 0:
            yield list(seq)
            return
        n = len(meta)
        opnds = operands(n, meta)
        pairs = list(itertools.combinations_with_replacement(opnds, 2))
        for kind in ("and", "or"):
            for a, b in pairs:
                yield from rec(seq + [(kind, [a, b], {})], meta + [kind], d - 1)
        # mutable nodes: negated operands only from atoms (stratification)
        pos = [o for o in opnds if o[0] != "k" or not o[2] or meta[o[1]] == "atom"]
        pos = [o for o in pos if o[0] != "k" or meta[o[1]] in ("atom", "and", "or", "mor")]
        for a in pos:
            yield from rec(seq + [("or", [a], {"readonly": False})], meta + ["mor"], d - 1)
        yield from rec(seq + [("or", [], {"readonly": False, "placeholder": True})], meta + ["mor"], d - 1)
        for j, m in enumerate(meta):
            if m == "mor":
                for a in pos:
                    yield from rec(seq + [("disjunct", j, a)], meta + ["ret"], d - 1)

    for d in range(1, depth + 1):
        for s in rec(base, ["atom", "atom"], d):
            yield s


def items_for(tier, seed):
    items = []
    seq_items = []
    # bounded-exhaustive part
    depth = 2
    for oi, opts in enumerate(OPTION_VECTORS if tier == "thorough" else OPTION_VECTORS[:7]):
        batch = []
        for s in exhaustive_sequences(depth, wide=True):
            batch.append(s)
            if len(batch) >= 400:
                items.append(("exh%d/%s" % (depth, oi), opts, batch, "batch"))
                batch = []
        if batch:
            items.append(("exh%d/%s" % (depth, oi), opts, batch, "batch"))
    if tier == "thorough":
        for oi, opts in enumerate([{}, {"max_arity": 2}, {"keep_duplicates": True}, {"auto_compact": False}]):
            batch = []
            for s in exhaustive_sequences(3, wide=False):
                batch.append(s)
                if len(batch) >= 4000:
                    items.append(("exh3/%s" % oi, opts, batch, "batch"))
                    batch = []
            if batch:
                items.append(("exh3/%s" % oi, opts, batch, "batch"))
    # seeded long sequences
    n = 400 if tier == "quick" else 6000
    for i in range(n):
        rng = random.Random("c11/%s/%s" % (seed, i))
        opts = dict(OPTION_VECTORS[i % len(OPTION_VECTORS)])
        if rng.random() < 0.3:
            for k, v in rng.choice(OPTION_VECTORS).items():
                opts[k] = v
        g = SeqGen(rng, rng.randint(2, 6 if i % 5 else 12), opts.get("keep_all", False))
        ops = g.generate(rng.choice([6, 12, 25, 40] if tier == "quick" else [6, 12, 25, 40, 60]))
        seq_items.append(("seq/%s/%s" % (seed, i), opts, ops, "each" if len(ops) <= 16 else "new"))
    return seq_items + items


def work(item):
    name, opts, payload, mode = item
    if mode != "batch":
        return check_sequence(item)
    st = Stats()
    for i, ops in enumerate(payload):
        s = check_sequence(("%s/%d" % (name, i), opts, ops, "each"))
        for k in ("obligations", "discharged", "inconclusive", "solver_time", "queries", "programs"):
            st[k] += s[k]
        st["violations"] += s["violations"]
        st["harness_errors"] += s["harness_errors"]
        st["nontrivial"] += s["nontrivial"][:3]
        if len(st["samples"]) < 1:
            st["samples"] += s["samples"]
        if len(st["notes"]) < 3:
            st["notes"] += s["notes"]
    return st


def main(tier, seed):
    run = Run("C11", tier, seed, "translation_validation",
              "each call sequence is executed on the real LogicFormula builder and mirrored by a spec graph "
              "without any simplification; z3 decides for ALL atom assignments that every returned key (also "
              "keys returned earlier, after later mutations) and every named key denotes the described function")
    run.functions = FUNCS
    run.assumptions = ["call sequences are enumerated (bounded-exhaustive: <= 2 compound calls over 2 atoms with all "
                       "operand choices, 3 in the thorough tier with a reduced operand set) or seeded (length <= 60); "
                       "not symbolic", "sequences never build a cycle through negation (strata on mutable nodes)",
                       "meaning of a cyclic node table = least fixpoint, SCC-unrolled (vlib/tv.py); the same encoder "
                       "reads the spec graph, which applies no simplification",
                       "add_disjunct on a FALSE key raising ValueError is the documented rejection, not a violation"]
    items = items_for(tier, seed)
    nseq = sum(len(p) if m == "batch" else 1 for _, _, p, m in items)
    run.bounds = {"call_sequences": nseq, "option_vectors": len(OPTION_VECTORS), "max_atoms": 12, "max_length": 60}
    for st in pmap(work, items, item_timeout=600 if tier == "quick" else 3000):
        run.merge(st)
    return run.finish()


def replay(obj):
    if obj.get("raises"):
        try:
            ses = Session(obj["opts"])
            for op in obj["ops"]:
                try:
                    ses.step(tuple(op))
                except Rejected:
                    pass
        except Exception as e:
            return type(e).__name__ == obj["raises"]
        return False
    return bool(builder.replay_sequence(obj["opts"], obj["ops"], obj["assignment"]))

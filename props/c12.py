"""C12 Built-in semirings obey their algebra and documented defaults (E5: real methods on proxies)."""
import itertools
import random
import re
from fractions import Fraction

import z3

import problog.evaluator as pev
import problog.tasks.mpe as pmpe
from problog.evaluator import (Semiring, SemiringProbability, SemiringLogProbability, SemiringSymbolic,
                               OperationNotSupported)
from problog.logic import Term, Constant

from vlib import sym, symsem, leaf
from vlib.leaf import Law
from vlib.common import Run, Stats, pmap

# shims: float() is already shadowed in problog.evaluator by vlib.symsem; math here; float in mpe
pev.math = sym.MathShim()
pmpe.float = pev.float

FUNCS = ["problog.evaluator.SemiringProbability.{one,zero,is_one,is_zero,plus,times,negate,normalize,value,result,"
         "in_domain,pos_value,neg_value,ad_complement,true,false,to_evidence}",
         "problog.evaluator.SemiringLogProbability.{one,zero,is_one,is_zero,plus,times,negate,normalize,value,result,"
         "in_domain,ad_complement}", "problog.evaluator.Semiring (base defaults is_one,is_zero,normalize,value,result,"
         "ad_complement,true,false)", "problog.evaluator.SemiringSymbolic.{plus,times,negate,normalize,value}",
         "problog.tasks.mpe.SemiringMPEState / SemiringMinPEState {plus,times,pos_value,neg_value,ad_complement}"]

P = SemiringProbability()
L = SemiringLogProbability()


class UserSemiring(Semiring):
    """A user-defined semiring that relies on the documented base-class defaults."""

    def one(self):
        return 1.0

    def zero(self):
        return 0.0

    def plus(self, a, b):
        return a + b

    def times(self, a, b):
        return a * b


B = UserSemiring()
U01 = lambda *names: [(n, 0, 1) for n in names]


def eq(a, b):
    return ("eq", a, b)


def cond(c):
    return ("cond", c)


def semiring_laws(tag, S, with_negate=True):
    """Commutative-semiring laws on internal values obtained through S.value()."""
    v = S.value
    laws = [
        Law(tag + ".plus-comm", U01("a", "b"), lambda V: eq(S.plus(v(V("a")), v(V("b"))), S.plus(v(V("b")), v(V("a"))))),
        Law(tag + ".times-comm", U01("a", "b"), lambda V: eq(S.times(v(V("a")), v(V("b"))), S.times(v(V("b")), v(V("a"))))),
        Law(tag + ".plus-assoc", U01("a", "b", "c"), lambda V: eq(S.plus(S.plus(v(V("a")), v(V("b"))), v(V("c"))),
                                                                  S.plus(v(V("a")), S.plus(v(V("b")), v(V("c")))))),
        Law(tag + ".times-assoc", U01("a", "b", "c"), lambda V: eq(S.times(S.times(v(V("a")), v(V("b"))), v(V("c"))),
                                                                   S.times(v(V("a")), S.times(v(V("b")), v(V("c")))))),
        Law(tag + ".distrib", U01("a", "b", "c"), lambda V: eq(S.times(v(V("a")), S.plus(v(V("b")), v(V("c")))),
                                                               S.plus(S.times(v(V("a")), v(V("b"))), S.times(v(V("a")), v(V("c")))))),
        Law(tag + ".plus-zero", U01("a"), lambda V: eq(S.plus(v(V("a")), S.zero()), v(V("a")))),
        Law(tag + ".zero-plus", U01("a"), lambda V: eq(S.plus(S.zero(), v(V("a"))), v(V("a")))),
        Law(tag + ".times-one", U01("a"), lambda V: eq(S.times(v(V("a")), S.one()), v(V("a")))),
        Law(tag + ".times-zero", U01("a"), lambda V: cond(S.is_zero(S.times(v(V("a")), S.zero())))),
        Law(tag + ".is_one(one)", [], lambda V: cond(S.is_one(S.one()))),
        Law(tag + ".is_zero(zero)", [], lambda V: cond(S.is_zero(S.zero()))),
        Law(tag + ".not-is_zero(one)", [], lambda V: cond(not S.is_zero(S.one()))),
        Law(tag + ".not-is_one(zero)", [], lambda V: cond(not S.is_one(S.zero()))),
        Law(tag + ".result(value)", U01("a"), lambda V: eq(S.result(v(V("a"))), P.value(V("a")))),
        Law(tag + ".in_domain(value)", U01("a"), lambda V: cond(S.in_domain(v(V("a"))))),
        Law(tag + ".normalize-by-one", U01("a"), lambda V: eq(S.normalize(v(V("a")), S.one()), v(V("a")))),
        Law(tag + ".true/false", [], lambda V: cond(S.is_one(S.true()[0]) and S.is_zero(S.true()[1])
                                                    and S.is_zero(S.false()[0]) and S.is_one(S.false()[1]))),
    ]
    if with_negate:
        laws += [
            Law(tag + ".negate-involution", U01("a"), lambda V: eq(S.negate(S.negate(v(V("a")))), v(V("a")))),
            Law(tag + ".plus-negate-is-one", U01("a"), lambda V: cond(S.is_one(S.plus(v(V("a")), S.negate(v(V("a"))))))),
            Law(tag + ".pos+neg-value", U01("a"), lambda V: cond(S.is_one(S.plus(S.pos_value(V("a")), S.neg_value(V("a")))))),
            Law(tag + ".normalize", U01("a", "z"), lambda V: eq(S.times(S.normalize(v(V("a")), v(V("z"))), v(V("z"))), v(V("a"))),
                extra=lambda vs: [vs["z"] > 0]),
            Law(tag + ".ad_complement", U01("a", "b"),
                lambda V: cond(S.is_one(S.plus(S.plus(v(V("a")), v(V("b"))), S.ad_complement([v(V("a")), v(V("b"))])))),
                extra=lambda vs: [vs["a"] + vs["b"] <= 1]),
            Law(tag + ".to_evidence", U01("a"),
                lambda V: cond(S.is_one(S.to_evidence(v(V("a")), S.negate(v(V("a"))), 1)[0])
                               and S.is_zero(S.to_evidence(v(V("a")), S.negate(v(V("a"))), 1)[1])
                               and S.is_zero(S.to_evidence(v(V("a")), S.negate(v(V("a"))), -1)[0]))),
        ]
    return laws


def log_image_laws():
    """log-probability is the logarithmic image of probability: every operation corresponds."""
    lv, pv = L.value, P.value
    return [
        Law("logimage.value", U01("a"), lambda V: eq(L.result(lv(V("a"))), P.result(pv(V("a"))))),
        Law("logimage.plus", U01("a", "b"), lambda V: eq(L.result(L.plus(lv(V("a")), lv(V("b")))),
                                                        P.result(P.plus(pv(V("a")), pv(V("b")))))),
        Law("logimage.times", U01("a", "b"), lambda V: eq(L.result(L.times(lv(V("a")), lv(V("b")))),
                                                         P.result(P.times(pv(V("a")), pv(V("b")))))),
        Law("logimage.negate", U01("a"), lambda V: eq(L.result(L.negate(lv(V("a")))), P.result(P.negate(pv(V("a")))))),
        Law("logimage.normalize", U01("a", "z"), lambda V: eq(L.result(L.normalize(lv(V("a")), lv(V("z")))),
                                                            P.result(P.normalize(pv(V("a")), pv(V("z"))))),
            extra=lambda vs: [vs["z"] > 0]),
        Law("logimage.ad_complement", U01("a", "b", "c"),
            lambda V: eq(L.result(L.ad_complement([lv(V("a")), lv(V("b")), lv(V("c"))])),
                         P.result(P.ad_complement([pv(V("a")), pv(V("b")), pv(V("c"))]))),
            extra=lambda vs: [vs["a"] + vs["b"] + vs["c"] <= 1]),
        Law("logimage.is_zero", U01("a"), lambda V: eq(bool(L.is_zero(lv(V("a")))), bool(P.is_zero(pv(V("a")))))),
        Law("logimage.is_one", U01("a"), lambda V: eq(bool(L.is_one(lv(V("a")))), bool(P.is_one(pv(V("a")))))),
        Law("logimage.one-zero", [], lambda V: cond(L.result(L.one()) == 1.0 and L.result(L.zero()) == 0.0)),
        Law("logimage.pos/neg_value", U01("a"), lambda V: eq((L.result(L.pos_value(V("a"))), L.result(L.neg_value(V("a")))),
                                                            (P.result(P.pos_value(V("a"))), P.result(P.neg_value(V("a")))))),
        Law("logimage.plus-sum-of-four", U01("a", "b", "c", "d"),
            lambda V: eq(L.result(L.plus(L.plus(lv(V("a")), lv(V("b"))), L.plus(lv(V("c")), lv(V("d"))))),
                         P.plus(P.plus(pv(V("a")), pv(V("b"))), P.plus(pv(V("c")), pv(V("d")))))),
    ]


def base_default_laws():
    return [
        Law("base.is_one(one)", [], lambda V: cond(B.is_one(B.one()))),
        Law("base.is_zero(zero)", [], lambda V: cond(B.is_zero(B.zero()))),
        Law("base.not-is_one(zero)", [], lambda V: cond(not B.is_one(B.zero()))),
        Law("base.is_one(value)", U01("a"), lambda V: eq(bool(B.is_one(B.value(V("a")))), bool(P.is_one(P.value(V("a")))))),
        Law("base.normalize(a,one)", U01("a"), lambda V: eq(B.normalize(B.value(V("a")), B.one()), B.value(V("a")))),
        Law("base.normalize(a,z!=one)-unsupported", U01("a", "z"), lambda V: eq(B.normalize(B.value(V("a")), B.value(V("z"))), 0),
            extra=lambda vs: [vs["z"] < 1], expect_exc=OperationNotSupported),
        Law("base.value/result", U01("a"), lambda V: eq(B.result(B.value(V("a"))), P.value(V("a")))),
        Law("base.negate-unsupported", U01("a"), lambda V: eq(B.negate(B.value(V("a"))), 0), expect_exc=OperationNotSupported),
        Law("base.true/false", [], lambda V: cond(B.is_one(B.true()[0]) and B.is_zero(B.true()[1])
                                                  and B.is_zero(B.false()[0]) and B.is_one(B.false()[1]))),
        Law("base.to_evidence", U01("a"), lambda V: cond(B.is_one(B.to_evidence(B.value(V("a")), B.value(V("a")), 1)[0])
                                                         and B.is_one(B.to_evidence(B.value(V("a")), B.value(V("a")), -1)[1]))),
        Law("base.result_one/zero", [], lambda V: cond(B.result_one() == 1.0 and B.result_zero() == 0.0)),
    ]


def mpe_laws():
    out = []
    for tag, M in (("mpe", pmpe.SemiringMPEState()), ("minpe", pmpe.SemiringMinPEState())):
        def mk(M):
            def a_(V, n, k):
                return M.pos_value(V(n), k)
            ls = [
                Law(tag + ".plus-comm-value", U01("a", "b"), lambda V: eq(M.plus(a_(V, "a", 1), a_(V, "b", 2))[0],
                                                                          M.plus(a_(V, "b", 2), a_(V, "a", 1))[0])),
                Law(tag + ".plus-assoc-value", U01("a", "b", "c"),
                    lambda V: eq(M.plus(M.plus(a_(V, "a", 1), a_(V, "b", 2)), a_(V, "c", 3))[0],
                                 M.plus(a_(V, "a", 1), M.plus(a_(V, "b", 2), a_(V, "c", 3)))[0])),
                Law(tag + ".plus-selects-an-operand", U01("a", "b"),
                    lambda V: cond(M.plus(a_(V, "a", 1), a_(V, "b", 2))[1] in ({1}, {2}))),
                Law(tag + ".times", U01("a", "b"), lambda V: eq((M.times(a_(V, "a", 1), a_(V, "b", 2))[0],
                                                                 M.times(a_(V, "a", 1), a_(V, "b", 2))[1] == {1, 2}),
                                                                (P.times(P.value(V("a")), P.value(V("b"))), True))),
                Law(tag + ".times-one", U01("a"), lambda V: eq(M.times(a_(V, "a", 1), M.one())[0], P.value(V("a")))),
                Law(tag + ".plus-zero", U01("a"), lambda V: eq(M.plus(a_(V, "a", 1), M.zero())[0], P.value(V("a")))),
                Law(tag + ".neg_value", U01("a"), lambda V: eq((M.neg_value(V("a"), 4)[0], M.neg_value(V("a"), 4)[1] == {-4}),
                                                               (P.negate(P.value(V("a"))), True))),
                Law(tag + ".ad_complement", U01("a", "b"),
                    lambda V: eq(M.ad_complement([a_(V, "a", 1), a_(V, "b", 2)], 7)[0],
                                 P.ad_complement([P.value(V("a")), P.value(V("b"))])),
                    extra=lambda vs: [vs["a"] + vs["b"] <= 1]),
            ]
            if tag == "mpe":
                ls.append(Law(tag + ".plus-is-max", U01("a", "b"),
                              lambda V: cond(bool(M.plus(a_(V, "a", 1), a_(V, "b", 2))[0] >= P.value(V("a")))
                                             and bool(M.plus(a_(V, "a", 1), a_(V, "b", 2))[0] >= P.value(V("b"))))))
                ls.append(Law(tag + ".distrib-value", U01("a", "b", "c"),
                              lambda V: eq(M.times(a_(V, "a", 1), M.plus(a_(V, "b", 2), a_(V, "c", 3)))[0],
                                           M.plus(M.times(a_(V, "a", 1), a_(V, "b", 2)), M.times(a_(V, "a", 1), a_(V, "c", 3)))[0])))
            return ls
        out += mk(M)
    return out


ALL_LAWS = None


def all_laws():
    global ALL_LAWS
    if ALL_LAWS is None:
        ALL_LAWS = semiring_laws("prob", P) + semiring_laws("logprob", L) + log_image_laws() + base_default_laws() + mpe_laws()
    return ALL_LAWS


def make_value(name, proxy):
    return Term(name)     # resolved to the proxy by the float() shim (vlib.symsem._is_param)


def make_concrete(name, f):
    return Constant(f)


def work_law(i):
    st = Stats()
    law = all_laws()[i]
    leaf.prove_law(law, st, make_value, make_concrete, "C12", timeout_ms=20000)
    st["programs"] = 1
    if len(st["samples"]) < 1:
        st["samples"].append({"law": law.name, "inputs": [p for p, _, _ in law.params]})
    return st


# ---------------------------------------------------------------------------------------------
# SemiringSymbolic: the produced expression is parsed into a rational function and compared with
# the function the operation denotes (z3 polynomial identity, all real values of the symbols)

class Rat(object):
    __slots__ = ("n", "d")

    def __init__(self, n, d=None):
        self.n = n
        self.d = d if d is not None else z3.RealVal(1)

    def add(self, o):
        return Rat(self.n * o.d + o.n * self.d, self.d * o.d)

    def sub(self, o):
        return Rat(self.n * o.d - o.n * self.d, self.d * o.d)

    def mul(self, o):
        return Rat(self.n * o.n, self.d * o.d)

    def div(self, o):
        return Rat(self.n * o.d, self.d * o.n)


def parse_expr(s):
    """Standard arithmetic precedence: + - (left assoc) < * / (left assoc) < unary - < atoms."""
    toks = re.findall(r"\s*([A-Za-z_][A-Za-z_0-9]*|\d+\.\d+|\d+|[()+\-*/])", s)
    if "".join(toks) != re.sub(r"\s+", "", s):
        raise ValueError("cannot tokenise %r" % s)
    pos = [0]
    dens = []

    def peek():
        return toks[pos[0]] if pos[0] < len(toks) else None

    def take():
        t = toks[pos[0]]
        pos[0] += 1
        return t

    def atom():
        t = take()
        if t == "(":
            r = expr()
            if take() != ")":
                raise ValueError("expected )")
            return r
        if t == "-":
            return Rat(z3.RealVal(0)).sub(atom())
        if re.match(r"^\d", t):
            return Rat(z3.RealVal(t))
        return Rat(z3.Real(t))

    def term():
        r = atom()
        while peek() in ("*", "/"):
            op = take()
            o = atom()
            if op == "*":
                r = r.mul(o)
            else:
                dens.append(o)
                r = r.div(o)
        return r

    def expr():
        r = term()
        while peek() in ("+", "-"):
            op = take()
            o = term()
            r = r.add(o) if op == "+" else r.sub(o)
        return r

    r = expr()
    if pos[0] != len(toks):
        raise ValueError("trailing tokens in %r" % s)
    return r, dens


def symbolic_items(tier, seed=0):
    S = SemiringSymbolic()
    base = [("0", Rat(z3.RealVal(0))), ("1", Rat(z3.RealVal(1))), ("a", Rat(z3.Real("a"))), ("b", Rat(z3.Real("b"))),
            ("c", Rat(z3.Real("c"))), ("0.5", Rat(z3.RealVal("1/2")))]
    ops = []   # (description, produced string, reference Rat, denominators that must be non-zero)
    lvl1 = []
    for (x, X), (y, Y) in itertools.product(base, base):
        lvl1.append(("plus(%s,%s)" % (x, y), S.plus(S.value(x), S.value(y)), X.add(Y), []))
        lvl1.append(("times(%s,%s)" % (x, y), S.times(S.value(x), S.value(y)), X.mul(Y), []))
        if y != "0":
            lvl1.append(("normalize(%s,%s)" % (x, y), S.normalize(S.value(x), S.value(y)), X.div(Y), [Y]))
    for x, X in base:
        lvl1.append(("negate(%s)" % x, S.negate(S.value(x)), Rat(z3.RealVal(1)).sub(X), []))
    ops += lvl1
    pool = [(d, s, R, dn) for d, s, R, dn in lvl1 if s not in ("0", "1")]
    pool = pool[:: (3 if tier == "quick" else 1)]
    small = [(d, s, R, dn) for d, s, R, dn in lvl1][::7] + [(x, x, X, []) for x, X in base]
    for (d1, s1, R1, dn1) in pool:
        ops.append(("negate(%s)" % d1, S.negate(s1), Rat(z3.RealVal(1)).sub(R1), dn1))
        for (d2, s2, R2, dn2) in small:
            ops.append(("plus(%s,%s)" % (d1, d2), S.plus(s1, s2), R1.add(R2), dn1 + dn2))
            ops.append(("times(%s,%s)" % (d1, d2), S.times(s1, s2), R1.mul(R2), dn1 + dn2))
            ops.append(("times(%s,%s)" % (d2, d1), S.times(s2, s1), R2.mul(R1), dn1 + dn2))
            if s2 != "0":
                ops.append(("normalize(%s,%s)" % (d1, d2), S.normalize(s1, s2), R1.div(R2), dn1 + dn2 + [R2]))
                ops.append(("normalize(%s,%s)" % (d2, d1), S.normalize(s2, s1), R2.div(R1), dn1 + dn2 + [R1]))
    # seeded random operation trees of depth 3-4 (products of sums, sums of products, nested quotients)
    rng = random.Random("c12/%s" % seed)

    def tree(depth):
        if depth == 0 or rng.random() < 0.15:
            x, X = rng.choice(base)
            return x, S.value(x), X, []
        op = rng.choice(["plus", "plus", "times", "times", "negate", "normalize"])
        d1, s1, R1, n1 = tree(depth - 1)
        if op == "negate":
            return "negate(%s)" % d1, S.negate(s1), Rat(z3.RealVal(1)).sub(R1), n1
        d2, s2, R2, n2 = tree(depth - 1)
        if op == "plus":
            return "plus(%s,%s)" % (d1, d2), S.plus(s1, s2), R1.add(R2), n1 + n2
        if op == "times":
            return "times(%s,%s)" % (d1, d2), S.times(s1, s2), R1.mul(R2), n1 + n2
        if s2 == "0":
            return d1, s1, R1, n1
        return "normalize(%s,%s)" % (d1, d2), S.normalize(s1, s2), R1.div(R2), n1 + n2 + [R2]

    for i in range(1500 if tier == "quick" else 20000):
        ops.append(tree(3 if i % 2 else 4))
    return ops


def work_symbolic(chunk):
    st = Stats()
    st["programs"] = 1
    import time
    for desc, s, R, dens in chunk:
        okey = "symbolic:" + desc
        try:
            Pq, pdens = parse_expr(s)
        except ValueError as e:
            st.ob("refuted", key=okey)
            st.violation("symbolic:unparsable", "SemiringSymbolic %s produced %r which is not an arithmetic expression (%s)" % (desc, s, e),
                         {"kind": "symbolic", "desc": desc, "expr": s})
            continue
        sol = z3.Solver()
        sol.set("timeout", 10000)
        for d in list(dens) + list(pdens):
            sol.add(d.n != 0, d.d != 0)
        sol.add(Pq.d != 0, R.d != 0)
        sol.add(Pq.n * R.d != R.n * Pq.d)
        t = time.time()
        r = str(sol.check())
        st["solver_time"] += time.time() - t
        st["queries"] += 1
        if r == "unsat":
            st.ob("proved", key=okey)
        elif r == "sat":
            m = sol.model()
            vals = {}
            for n in "abc":
                v = m.eval(z3.Real(n), model_completion=True)
                try:
                    vals[n] = Fraction(v.numerator_as_long(), v.denominator_as_long())
                except Exception:
                    vals[n] = Fraction(str(v.approx(12)).rstrip("?"))
            if replay_symbolic(desc, vals):
                st.ob("refuted", key=okey)
                st.violation("symbolic:%s" % desc.split("(")[0], "SemiringSymbolic %s = %r does not denote the operation's value at %s" % (
                    desc, s, dict((k, str(v)) for k, v in vals.items())), {"kind": "symbolic", "desc": desc, "expr": s,
                                                                          "values": dict((k, str(v)) for k, v in vals.items())})
            else:
                st.harness_error("symbolic model did not replay: %s -> %r at %s" % (desc, s, vals))
        else:
            st.ob("inconclusive", key=okey, note="z3 unknown on %s" % desc)
    if chunk:
        st["samples"].append({"op": chunk[0][0], "expression": chunk[0][1]})
    return st


def _apply(desc, env):
    """Evaluate an operation description like normalize(plus(a,b),times(a,c)) exactly (reference)
    and through the real SemiringSymbolic + Python's own expression evaluator."""
    S = SemiringSymbolic()
    desc = desc.strip()
    m = re.match(r"^([a-z]+)\((.*)\)$", desc)
    if not m:
        return Fraction(desc) if re.match(r"^[\d.]+$", desc) else env[desc], S.value(desc)
    op, rest = m.group(1), m.group(2)
    args, depth, cur = [], 0, ""
    for ch in rest:
        if ch == "," and depth == 0:
            args.append(cur)
            cur = ""
            continue
        depth += ch == "("
        depth -= ch == ")"
        cur += ch
    args.append(cur)
    vals = [_apply(a, env) for a in args]
    if op == "plus":
        return vals[0][0] + vals[1][0], S.plus(vals[0][1], vals[1][1])
    if op == "times":
        return vals[0][0] * vals[1][0], S.times(vals[0][1], vals[1][1])
    if op == "negate":
        return 1 - vals[0][0], S.negate(vals[0][1])
    if op == "normalize":
        return vals[0][0] / vals[1][0], S.normalize(vals[0][1], vals[1][1])
    raise ValueError(op)


def replay_symbolic(desc, vals):
    env = dict((k, Fraction(v)) for k, v in vals.items())
    try:
        ref, s = _apply(desc, env)
    except ZeroDivisionError:
        return False
    s2 = re.sub(r"(\d+\.\d+|\d+)", r"Fraction('\1')", s)
    try:
        got = eval(s2, {"Fraction": Fraction}, dict(env))
    except ZeroDivisionError:
        return False
    except Exception:
        return True
    return got != ref


def main(tier, seed):
    run = Run("C12", tier, seed, "other",
              "every law is a harness over the REAL semiring methods executed on proxy values (floats as reals, log "
              "values by their linear image); each feasible path's postcondition is decided by z3 for all inputs in "
              "[0,1]; SemiringSymbolic outputs are parsed and proved equal (polynomial identity) to the denoted value")
    run.functions = FUNCS
    run.assumptions = ["floats are reals; exp/log/log1p are exact mutually inverse monotone bijections (log values are "
                       "represented by their linear image); IEEE rounding outside the claim",
                       "tolerance constants (1e-12, 1e-10, 1e-9, -1e100) are infinitesimally close to 0 / 1 / log 0: "
                       "values inside a tolerance band are identified with the band's centre",
                       "SemiringSymbolic: operands are the symbols a,b,c and constants 0, 1, 0.5 and results of <= 1 "
                       "earlier operation (depth 2)", "MPE semirings: laws on the value component; tie-breaking of the state component not asserted"]
    laws = all_laws()
    sitems = symbolic_items(tier, seed)
    chunks = [sitems[i::16] for i in range(16)]
    run.bounds = {"laws": len(laws), "symbolic_expressions": len(sitems), "value_range": "[0,1] closed (AD sums <= 1)",
                  "max_paths_per_law": 64}
    results = pmap(work_law, range(len(laws)), item_timeout=120) + pmap(work_symbolic, chunks, item_timeout=600)
    for st in results:
        run.merge(st)
    run.extra["rule"] = "one obligation per feasible path of a law harness / per symbolic expression"
    return run.finish()


def replay(obj):
    if obj["kind"] == "law":
        law = [l for l in all_laws() if l.name == obj["law"]][0]
        vals = dict((k, Fraction(v)) for k, v in obj["values"].items())
        return bool(leaf.replay_law(law, vals, make_concrete))
    if obj["kind"] == "symbolic":
        if "values" not in obj:
            try:
                parse_expr(obj["expr"])
                return False
            except ValueError:
                return True
        return replay_symbolic(obj["desc"], obj["values"])
    return False

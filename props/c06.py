"""C06 Inference options do not change the answer (E1, run-vs-run)."""
import itertools
import random
import re

from problog import get_evaluatable
from problog.evaluator import SemiringProbability, SemiringLogProbability
from problog.program import PrologString

from vlib import gen, diffcheck, symsem
from vlib.common import Run, Stats, pmap

TOGGLES = ["propagate_evidence", "propagate_weights", "label_all", "avoid_name_clash", "keep_order",
           "keep_all", "keep_duplicates", "hide_builtins", "spelling"]

FUNCS = ["problog.engine.ClauseDBEngine.ground_all (propagate_evidence, lookup_evidence)",
         "problog.engine_stack.StackBasedEngine.propagate_evidence",
         "problog.formula.LogicFormula.add_atom (weight propagation through the real SemiringProbability "
         "is_zero/is_one on symbolic weights)", "problog.formula.LogicFormula._add_compound",
         "problog.evaluator.SemiringProbability.* (on SymReal proxies)",
         "problog.ddnnf_formula.SimpleDDNNFEvaluator.*"]


def respell(text):
    text = re.sub(r"evidence\(([^()]*(?:\([^()]*\))?),\s*true\)\.", r"evidence(\1).", text)
    text = re.sub(r"evidence\(([^()]*(?:\([^()]*\))?),\s*false\)\.", r"evidence(\\+\1).", text)
    return text


def make_cfg(desc):
    opts = dict(desc)
    spelling = opts.pop("spelling", False)
    logspace = opts.pop("logspace", False)

    def cfg(text, sr):
        if spelling:
            text = respell(text)
        o = dict(opts)
        if o.pop("propagate_weights", False):
            o["propagate_weights"] = sr if sr is not None else SemiringProbability()
        f = get_evaluatable("ddnnf").create_from(PrologString(text), **o)
        if sr is None and logspace:
            return f.evaluate(semiring=SemiringLogProbability())
        if sr is None:
            return f.evaluate(semiring=SemiringProbability())
        return f.evaluate(semiring=sr)
    return cfg


def vectors(tier, rng):
    vs = [{t: True} for t in TOGGLES]
    vs += [{a: True, b: True} for a, b in itertools.combinations(TOGGLES, 2)]
    if tier == "thorough":
        for _ in range(200):
            vs.append(dict((t, True) for t in TOGGLES if rng.random() < 0.4))
    return [v for v in vs if v]


def work(item):
    name, prog, descs = item
    text = gen.program_text(prog)
    groups = gen.ad_groups_of(prog)
    st = Stats()
    for d in descs:
        diffcheck.diff_check(text, make_cfg({}), make_cfg(d), {}, d, groups=groups, name=name, st=st)
        # log-space vs normal space: concrete anchor at an interior point (the algebraic
        # correspondence for all values is C12's obligation)
    vals = diffcheck.default_values(symsem.find_params(text), groups)
    rep, info = diffcheck.replay_diff(text, make_cfg({}), make_cfg({"logspace": True}), vals, tol=1e-9)
    st.ob("refuted" if rep else "proved", key="log:" + name)
    if rep:
        st.violation("logspace:%s" % name, "log-space and normal-space evaluation differ :: " + info,
                     {"kind": "diff", "program": text, "A": {}, "B": {"logspace": True},
                      "values": dict((k, str(v)) for k, v in vals.items())})
    return st


def main(tier, seed):
    run = Run("C06", tier, seed, "translation_validation",
              "two real-code runs (default options vs option vector) with symbolic weights; z3 decides "
              "identity of the resulting rational functions for all parameter values (NRA) and agreement in "
              "all worlds (SAT)")
    run.functions = FUNCS
    run.assumptions = ["option vectors: all single toggles and all pairs (plus seeded vectors in thorough); "
                       "skeletons enumerated", "log-space vs normal-space compared concretely at one interior "
                       "point per skeleton (algebra in C12)", "floats as reals, tolerances as infinitesimals",
                       "an instance reported by only one configuration is accepted iff its value is identically 0 (solver-decided)"]
    rng = random.Random(seed)
    vs = vectors(tier, rng)
    items = []
    progs = [(n, p) for n, p in gen.corpus()]
    n = 40 if tier == "quick" else 600
    for i in range(n):
        progs.append(("gen/%d/%d" % (seed, i), gen.generate(seed, 9000 + i, max_choices=7,
                                                              evidence=True)))
    # helper predicates shared between the definition of an evidence atom and a query, with a literal of another
    # evidence atom inside (grounded in the evidence phase, read back through the cache by the query)
    from vlib.gen import A
    for i in range(n // 2):
        r = random.Random("c06h/%s/%s" % (seed, i))
        prog = [("ad", [("p%d" % (k + 1), A(x))], []) for k, x in enumerate(["a", "b", "c", "d"])]
        sa = r.random() < 0.7
        hbody = [(A("a"), sa), (A("b"), r.random() < 0.2)]
        hbody.sort(key=lambda l: l[1])
        prog.append(("rule", A("h"), hbody))
        prog.append(("rule", A("e"), [(A("h"), False), (A("c"), False)]))
        if r.random() < 0.4:
            prog.append(("rule", A("e"), [(A("d"), False), (A("c"), False)]))
        prog.append(("rule", A("q"), [(A("h"), r.random() < 0.2), (A("d"), False)]))
        prog.append(("evidence", A("a"), (not sa) if r.random() < 0.8 else sa))
        prog.append(("evidence", A("e"), r.random() < 0.3))
        prog.append(("query", A("q")))
        if r.random() < 0.5:
            prog.append(("query", A("h")))
        progs.append(("helper/%d/%d" % (seed, i), prog))
    for j, (name, prog) in enumerate(progs):
        if name.startswith("helper/"):
            items.append((name, prog, [{"propagate_evidence": True}, {"propagate_evidence": True, "spelling": True},
                                       {"propagate_evidence": True, "propagate_weights": True}]))
            continue
        if tier == "quick":
            sel = [vs[(j * 5 + k) % len(vs)] for k in range(5)] + [{t: True} for t in TOGGLES[:2]]
        else:
            sel = vs if j < 15 else [vs[(j * 7 + k) % len(vs)] for k in range(12)]
        items.append((name, prog, sel))
    run.bounds = {"skeletons": len(items), "option_vectors": len(vs), "max_choices": 7}
    for st in pmap(work, items, item_timeout=60 if tier == "quick" else 600):
        run.merge(st)
    return run.finish()


def replay(obj):
    vals = dict((k, __import__("fractions").Fraction(v)) for k, v in obj["values"].items())
    rep, info = diffcheck.replay_diff(obj["program"], make_cfg(obj["A"]), make_cfg(obj["B"]), vals,
                                      ignore_extra_zero=True)
    return rep

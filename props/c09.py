"""C09 Cycle breaking and Clark's completion preserve the ground program's meaning (E3)."""
import random

import z3

from vlib import gen, tv, pipeline
from vlib.common import Run, Stats, pmap, short_hash

FUNCS = ["problog.cycles.break_cycles/_break_cycles", "problog.cnf_formula.clarks_completion",
         "problog.constraint.ConstraintAD.as_clauses", "problog.cnf_formula.CNF.add_clause/add_constraint",
         "problog.formula.LogicFormula (node table read back)"]


def programs(tier, seed):
    items = []
    for name, prog in gen.corpus():
        items.append((name, gen.program_text(prog), False))
        items.append((name + "+pe", gen.program_text(prog), True))
    n = 150 if tier == "quick" else 3000
    for i in range(n):
        prog = gen.generate(seed, 5000 + i, max_choices=10 if i % 4 else 30)
        items.append(("gen/%d/%d" % (seed, i), gen.program_text(prog), i % 5 == 0))
    for i in range(300 if tier == "quick" else 6000):
        items.append(("synth/%d/%d" % (seed, i), "synthetic:%d/%d" % (seed, i), False))
    for i in range(60 if tier == "quick" else 1000):
        prog = gen.graph_program(random.Random("g/%s/%s" % (seed, i)))
        items.append(("graph/%d/%d" % (seed, i), gen.program_text(prog), False))
    # dense positive cycles with evidence on a cycle atom, grounded with and without evidence propagation
    for i in range(80 if tier == "quick" else 1500):
        rng = random.Random("c09cyc/%s/%s" % (seed, i))
        prog = [st_ for st_ in gen.cyclic_prop_program(rng) if st_[0] != "evidence"]
        ders = sorted(set(st_[1] for st_ in prog if st_[0] == "rule"))
        prog.append(("evidence", rng.choice(ders), rng.random() < 0.7))
        items.append(("cyc-ev/%d/%d" % (seed, i), gen.program_text(prog), i % 4 != 0))
    return items


def check_one(item):
    name, text, pe = item
    st = Stats()
    st["programs"] = 1
    if text.startswith("synthetic:"):
        from vlib import synth
        from problog.formula import LogicDAG
        from problog.cnf_formula import CNF
        ntext = text
        lf, desc = synth.cyclic_formula(random.Random(text))
        text = "%s  %s" % (text, desc)
        dag = LogicDAG.create_from(lf)
        cnf = CNF.create_from(dag)
    else:
        ntext = pipeline.numeric_text(text)
        try:
            art = pipeline.artifacts(ntext, propagate_evidence=pe, upto="cnf")
        except Exception as e:
            # grounding errors (negative cycles, the known AssertionError...) are other properties' business
            st.ob("inconclusive", note="pipeline raised %s" % type(e).__name__)
            return st
        lf, dag, cnf = art["lf"], art["dag"], art["cnf"]
    pkey = short_hash(ntext + str(pe))
    sat = tv.Sat()
    try:
        src = tv.encode_formula(lf)
    except tv.NegCycle:
        st.ob("inconclusive", note="negative cycle in ground program")
        return st
    dg = tv.encode_formula(dag)
    if len(lf) > 0 and len(st["samples"]) < 1:
        st["samples"].append({"name": name, "program": text, "lf_nodes": len(lf), "dag_nodes": len(dag),
                              "clauses": cnf.clausecount})
    # assumption for evidence-propagated groundings: propagated values hold
    assume = []
    if lf.has_evidence_values():
        for k, v in lf.get_evidence_values().items():
            if v == 0:
                assume.append(src[k])
            elif v is None:
                assume.append(z3.Not(src[k]))

    def violation(kind, what, detail):
        st.violation("%s:%s:%s" % (kind, pkey, detail), what,
                     {"kind": "c09", "program": ntext, "propagate_evidence": pe, "check": kind})

    # (i) every query / evidence node keeps its least-model meaning
    dnames = {}
    for n, k, l in dag.get_names_with_label():
        dnames[(str(n), l)] = k
    pairs = []
    for n, k, l in lf.labeled():
        pairs.append((str(n), l, k))
    for n, k, v in lf.evidence_all():
        lab = lf.LABEL_EVIDENCE_POS if v > 0 else lf.LABEL_EVIDENCE_NEG if v < 0 else lf.LABEL_EVIDENCE_MAYBE
        pairs.append((str(n), lab, k))
    for n, l, k in pairs:
        okey = "cb:%s:%s:%s" % (pkey, n, l)
        if (n, l) not in dnames:
            violation("name-lost", "%s label %s missing after cycle breaking" % (n, l), n)
            st.ob("refuted", key=okey)
            continue
        a = tv.lit_of(src, k)
        is_ev = l in (lf.LABEL_EVIDENCE_POS, lf.LABEL_EVIDENCE_NEG, lf.LABEL_EVIDENCE_MAYBE)
        b = tv.lit_of(dg, dnames[(n, l)])
        r, m = sat.check(z3.Xor(a, b), *([] if is_ev else assume))
        if r == "unsat":
            st.ob("proved", key=okey)
        elif r == "sat":
            # replay: evaluate both encodings under the model concretely
            st.ob("refuted", key=okey)
            violation("cycle-breaking", "node %s: acyclic program differs from least model of the cyclic "
                      "program under atoms %s" % (n, _atoms(m)), n)
        else:
            st.ob("inconclusive", key=okey, note="z3 unknown")
    # (ii) CNF <=> conjunction of node definitions (exactly one model per atom assignment, agreeing
    #      with the DAG on every node)
    defs_dag = tv.dag_definitions(dag)
    defs_cnf, cons_cnf = tv.cnf_clauses(cnf)
    okey = "cc:%s" % pkey
    r1, m1 = sat.check(z3.And(*defs_cnf) if defs_cnf else z3.BoolVal(True),
                       z3.Not(z3.And(*defs_dag)) if defs_dag else z3.BoolVal(False))
    r2, m2 = sat.check(z3.And(*defs_dag) if defs_dag else z3.BoolVal(True),
                       z3.Not(z3.And(*defs_cnf)) if defs_cnf else z3.BoolVal(False))
    if r1 == "unsat" and r2 == "unsat":
        st.ob("proved", key=okey)
    elif "sat" in (r1, r2):
        st.ob("refuted", key=okey)
        violation("completion", "CNF is not the completion of the acyclic program (%s)" % (
            "CNF admits a model that violates a node definition" if r1 == "sat" else
            "a definition-respecting assignment violates a CNF clause"), "cnf")
    else:
        st.ob("inconclusive", key=okey, note="z3 unknown")
    if cnf.atomcount != len(dag):
        st.ob("refuted", key="cnt:" + pkey)
        violation("atomcount", "CNF atomcount %s != DAG size %s" % (cnf.atomcount, len(dag)), "count")
    # (iii) constraints carried over: same groups, clauses mean exactly-one
    okey = "cons:%s" % pkey
    dcons = [(sorted(c.nodes), c.extra_node) for c in dag.constraints() if hasattr(c, "extra_node")]
    ccons = [(sorted(c.nodes), c.extra_node) for c in cnf.constraints() if hasattr(c, "extra_node")]
    ok = sorted(dcons, key=str) == sorted(ccons, key=str)
    want = []
    for c in dag.constraints():
        if hasattr(c, "extra_node") and c.is_nontrivial():
            lits = [z3.Bool("n%d" % n) for n in list(c.nodes) + [c.extra_node]]
            want.append(tv.exactly_one(lits))
    r, m = sat.check(z3.Xor(z3.And(*cons_cnf) if cons_cnf else z3.BoolVal(True),
                            z3.And(*want) if want else z3.BoolVal(True)))
    if ok and r == "unsat":
        st.ob("proved", key=okey)
    elif r == "unknown":
        st.ob("inconclusive", key=okey)
    else:
        st.ob("refuted", key=okey)
        violation("constraints", "AD constraints not carried over as exactly-one clauses", "cons")
    # weights and names carried over unchanged
    okey = "wn:%s" % pkey
    same_w = dict(dag.get_weights()) == dict(cnf.get_weights())
    same_n = sorted((str(n), str(k), l) for n, k, l in dag.get_names_with_label()) == \
        sorted((str(n), str(k), l) for n, k, l in cnf.get_names_with_label())
    if same_w and same_n:
        st.ob("proved", key=okey)
    else:
        st.ob("refuted", key=okey)
        violation("weights-names", "weights/names differ between DAG and CNF", "wn")
    st["solver_time"] += sat.solver_time
    st["queries"] += sat.queries
    return st


def _atoms(m):
    return ", ".join("%s=%s" % (d.name(), m[d]) for d in m.decls())[:300]


def main(tier, seed):
    run = Run("C09", tier, seed, "translation_validation",
              "every LogicFormula the real engine produces is encoded (least fixpoint unrolled per SCC) "
              "and z3 proves, for all atom assignments, equivalence with the LogicDAG of break_cycles "
              "and that the CNF of clarks_completion is exactly the conjunction of node definitions")
    run.functions = FUNCS
    run.assumptions = ["ground programs come from the corpus + seeded generator (bounded set)",
                       "for groundings with propagate_evidence the propagated node values are assumed "
                       "(equivalence given the evidence)"]
    items = programs(tier, seed)
    run.bounds = {"ground_programs": len(items), "z3_timeout_ms": 20000}
    for st in pmap(check_one, items, item_timeout=20 if tier == 'quick' else 120):
        run.merge(st)
    return run.finish()


def replay(obj):
    st = check_one(("replay", obj["program"], obj.get("propagate_evidence", False)))
    return bool(st["violations"])

"""C16 Arithmetic and term-inspection builtins match Yap/SWI semantics (E4: CrossHair, operands symbolic)."""
from vlib import xh
from vlib.common import Run, Stats
from vlib.shims import SHIM_SOURCE

FUNCS = ["problog.logic._arithmetic_functions (every entry exercised through compute_function)", "problog.logic.compute_function",
         "problog.engine_builtin.{_builtin_is,_builtin_lt,_builtin_le,_builtin_gt,_builtin_ge,_builtin_val_eq,_builtin_val_neq}",
         "problog.engine_builtin.{_builtin_between,_builtin_succ,_builtin_plus,_builtin_length,_builtin_arg,_builtin_functor,"
         "_builtin_split_call,_builtin_atom_number}", "problog.engine_builtin type tests (var, nonvar, atom, atomic, number, integer, "
         "float, compound, callable, is_list, ground)", "problog.engine_builtin.check_mode / mode_types"]

PREAMBLE = '''
import builtins
import problog.engine_builtin as eb
from problog.logic import Term, Constant, compute_function, ArithmeticError as PLArithmeticError
from problog.errors import ProbLogError
from problog.engine_unify import UnifyError
from vlib import arith_ref as R
''' + SHIM_SOURCE + '''



eb.int = _int


class FakeEngine(object):
    functions = {}

    def context_min_var(self, context):
        return -10


E = FakeEngine()
A, B, C = Term('a'), Term('b'), Term('c')


def judge(ref, thunk):
    """ref: R.NA (nothing asserted), R.ERR (ProbLog error required) or the expected number"""
    try:
        real = thunk()
    except ProbLogError:
        return ref == R.ERR or ref == R.NA
    if ref == R.NA:
        return True
    if ref == R.ERR:
        return False
    return R.same_number(real, ref)


def arith2(op, a, b):
    return judge(R.binop_int(op, a, b), lambda: compute_function(op, [Constant(a), Constant(b)]))


def arith1(op, a):
    return judge(R.unop_int(op, a), lambda: compute_function(op, [Constant(a)]))


def D(n):
    """the float n/8 for -24 <= n <= 24, concrete on every path (CrossHair does not exhaust symbolic floats)"""
    if n == -24:
        return -3.0
    if n == -23:
        return -2.875
    if n == -22:
        return -2.75
    if n == -21:
        return -2.625
    if n == -20:
        return -2.5
    if n == -19:
        return -2.375
    if n == -18:
        return -2.25
    if n == -17:
        return -2.125
    if n == -16:
        return -2.0
    if n == -15:
        return -1.875
    if n == -14:
        return -1.75
    if n == -13:
        return -1.625
    if n == -12:
        return -1.5
    if n == -11:
        return -1.375
    if n == -10:
        return -1.25
    if n == -9:
        return -1.125
    if n == -8:
        return -1.0
    if n == -7:
        return -0.875
    if n == -6:
        return -0.75
    if n == -5:
        return -0.625
    if n == -4:
        return -0.5
    if n == -3:
        return -0.375
    if n == -2:
        return -0.25
    if n == -1:
        return -0.125
    if n == 0:
        return 0.0
    if n == 1:
        return 0.125
    if n == 2:
        return 0.25
    if n == 3:
        return 0.375
    if n == 4:
        return 0.5
    if n == 5:
        return 0.625
    if n == 6:
        return 0.75
    if n == 7:
        return 0.875
    if n == 8:
        return 1.0
    if n == 9:
        return 1.125
    if n == 10:
        return 1.25
    if n == 11:
        return 1.375
    if n == 12:
        return 1.5
    if n == 13:
        return 1.625
    if n == 14:
        return 1.75
    if n == 15:
        return 1.875
    if n == 16:
        return 2.0
    if n == 17:
        return 2.125
    if n == 18:
        return 2.25
    if n == 19:
        return 2.375
    if n == 20:
        return 2.5
    if n == 21:
        return 2.625
    if n == 22:
        return 2.75
    if n == 23:
        return 2.875
    if n == 24:
        return 3.0
    return 0.0


def arith1f(op, n):
    return judge(R.unop_dyadic(op, n), lambda: compute_function(op, [Constant(D(n))]))


CMP = {"<": (eb._builtin_lt, lambda x, y: x < y), "=<": (eb._builtin_le, lambda x, y: x <= y),
       ">": (eb._builtin_gt, lambda x, y: x > y), ">=": (eb._builtin_ge, lambda x, y: x >= y),
       "=:=": (eb._builtin_val_eq, lambda x, y: x == y), "=\\\\=": (eb._builtin_val_neq, lambda x, y: x != y)}


def cmp_ii(op, a, b):
    f, ref = CMP[op]
    return bool(f(Constant(a), Constant(b), engine=E)) == ref(a, b)


def cmp_if(op, a, n):
    f, ref = CMP[op]
    return bool(f(Constant(a), Constant(D(n)), engine=E)) == ref(a * 8, n)


def cmp_expr(op, a, b, c):
    f, ref = CMP[op]
    return bool(f(Term('+', Constant(a), Constant(b)), Term('*', Constant(c), Constant(2)), engine=E)) == ref(a + b, c * 2)


def results(thunk):
    """list of result tuples, [] for failure; 'error' for a ProbLog error"""
    try:
        r = thunk()
    except UnifyError:
        return []
    except ProbLogError:
        return "error"
    if r is None or r is False:
        return []
    return r


def val(t):
    return t.functor if isinstance(t, Constant) else t


def elements(l):
    els, tail = eb.list_elements(l)
    return els, tail


def mklist(items, tail=None):
    return eb.build_list(list(items), Term('[]') if tail is None else tail)
'''


def H(name, sig, pre, body, meta):
    src = 'def %s(%s) -> bool:\n    """\n    pre: %s\n    post: _\n    """\n%s\n' % (
        name, sig, pre or "True", "\n".join("    " + l for l in body.strip("\n").split("\n")))
    return xh.Harness(name, src, meta)


def harnesses(tier):
    hs = []
    rng = "-1000000 <= {0} <= 1000000"
    small = "-40 <= {0} <= 40"
    i = [0]

    def nm(p):
        i[0] += 1
        return "h_%s_%d" % (p, i[0])

    for op in ["+", "-", "*", "//", "div", "mod", "rem", "/", "min", "max", "/\\", "\\/", "xor", "#", "><"]:
        r2 = rng
        if op in ("div", "mod", "/", "rem"):
            r2 = "-300 <= {0} <= 300"
        if op in ("/\\", "\\/", "xor", "#", "><"):
            r2 = "-20 <= {0} <= 20"
        hs.append(H(nm("a2"), "a: int, b: int", r2.format("a") + " and " + r2.format("b"),
                    "return arith2(%r, a, b)" % op, {"kind": "arith2", "op": op, "range": r2.format("v")}))
    for op in ["<<", ">>"]:
        hs.append(H(nm("a2"), "a: int, b: int", "-1000 <= a <= 1000 and -2 <= b <= 12",
                    "return arith2(%r, a, b)" % op, {"kind": "arith2", "op": op}))
    for op in ["^", "**"]:
        hs.append(H(nm("a2"), "a: int, b: int", "-12 <= a <= 12 and -1 <= b <= 5",
                    "return arith2(%r, a, b)" % op, {"kind": "arith2", "op": op}))
    for op in ["-", "+", "\\", "abs", "sign", "integer", "truncate", "round", "ceiling", "floor", "float"]:
        hs.append(H(nm("a1"), "a: int", rng.format("a"), "return arith1(%r, a)" % op, {"kind": "arith1", "op": op}))
    for op in ["-", "+", "abs", "sign", "integer", "round", "truncate", "floor", "ceiling", "float_integer_part",
               "float_fractional_part", "float"]:
        hs.append(H(nm("a1f"), "n: int", "-24 <= n <= 24", "return arith1f(%r, n)" % op, {"kind": "arith1-float(n/8)", "op": op}))
    for op in ["<", "=<", ">", ">=", "=:=", "=\\="]:
        hs.append(H(nm("cmp"), "a: int, b: int", rng.format("a") + " and " + rng.format("b"),
                    "return cmp_ii(%r, a, b)" % op, {"kind": "compare int,int", "op": op}))
        hs.append(H(nm("cmp"), "a: int, n: int", "-4 <= a <= 4 and -24 <= n <= 24",
                    "return cmp_if(%r, a, n)" % op, {"kind": "compare int,float", "op": op}))
        hs.append(H(nm("cmp"), "a: int, b: int, c: int", " and ".join(small.format(v) for v in "abc"),
                    "return cmp_expr(%r, a, b, c)" % op, {"kind": "compare expressions", "op": op}))
    # is/2
    hs.append(H(nm("is"), "a: int, b: int", rng.format("a") + " and " + rng.format("b"), '''
r = results(lambda: eb._builtin_is(-1, Term('+', Constant(a), Term('*', Constant(b), Constant(3))), engine=E))
return r != "error" and len(r) == 1 and val(r[0][0]) == a + b * 3''', {"kind": "is/2 (var is expr)"}))
    hs.append(H(nm("is"), "a: int, b: int, c: int", " and ".join(small.format(v) for v in "abc"), '''
r = results(lambda: eb._builtin_is(Constant(c), Term('-', Constant(a), Constant(b)), engine=E))
return r != "error" and (len(r) == 1) == (c == a - b)''', {"kind": "is/2 (int is expr)"}))
    hs.append(H(nm("is"), "a: int, b: int, n: int", "-6 <= a <= 6 and -6 <= b <= 6 and -24 <= n <= 24", '''
r = results(lambda: eb._builtin_is(Constant(D(n)), Term('+', Constant(a), Constant(b)), engine=E))
return r == []''', {"kind": "is/2 (float is int-valued expr never succeeds)"}))
    hs.append(H(nm("is"), "c: int, n: int", "-6 <= c <= 6 and -24 <= n <= 24", '''
r = results(lambda: eb._builtin_is(Constant(c), Term('+', Constant(D(n)), Constant(0.5)), engine=E))
r2 = results(lambda: eb._builtin_is(Constant(D(n) + 0.5), Term('+', Constant(D(n)), Constant(0.5)), engine=E))
return r == [] and r2 != "error" and len(r2) == 1''', {"kind": "is/2 (int is float-valued expr never succeeds)"}))
    hs.append(H(nm("is"), "a: int", small.format("a"), '''
r = results(lambda: eb._builtin_is(-1, Term('//', Constant(a), Constant(0)), engine=E))
return r == "error"''', {"kind": "is/2 division by zero"}))
    # between/3
    hs.append(H(nm("between"), "l: int, h: int", "-4 <= l <= 4 and -4 <= h <= 4", '''
r = results(lambda: eb._builtin_between(Constant(l), Constant(h), -1))
return r != "error" and [val(x[2]) for x in r] == list(range(l, h + 1))''', {"kind": "between(+,+,-)"}))
    hs.append(H(nm("between"), "l: int, h: int, v: int", " and ".join(small.format(v) for v in "lhv"), '''
r = results(lambda: eb._builtin_between(Constant(l), Constant(h), Constant(v)))
return r != "error" and (len(r) == 1) == (l <= v <= h)''', {"kind": "between(+,+,+)"}))
    # succ/2
    hs.append(H(nm("succ"), "b: int", small.format("b"), '''
r = results(lambda: eb._builtin_succ(-1, Constant(b)))
if b >= 1:
    return r != "error" and len(r) == 1 and val(r[0][0]) == b - 1
return r == "error" or r == []''', {"kind": "succ(-,+)"}))
    hs.append(H(nm("succ"), "a: int", small.format("a"), '''
r = results(lambda: eb._builtin_succ(Constant(a), -1))
if a >= 0:
    return r != "error" and len(r) == 1 and val(r[0][1]) == a + 1
return r == "error" or r == []''', {"kind": "succ(+,-)"}))
    hs.append(H(nm("succ"), "a: int, b: int", small.format("a") + " and " + small.format("b"), '''
r = results(lambda: eb._builtin_succ(Constant(a), Constant(b)))
if a >= 0 and b >= 0:
    return r != "error" and (len(r) == 1) == (b == a + 1)
return r == "error" or r == []''', {"kind": "succ(+,+)"}))
    # plus/3
    for mode, call, ok in [("(+,+,-)", "eb._builtin_plus(Constant(a), Constant(b), -1)", "len(r) == 1 and val(r[0][2]) == a + b"),
                           ("(+,-,+)", "eb._builtin_plus(Constant(a), -1, Constant(b))", "len(r) == 1 and val(r[0][1]) == b - a"),
                           ("(-,+,+)", "eb._builtin_plus(-1, Constant(a), Constant(b))", "len(r) == 1 and val(r[0][0]) == b - a")]:
        hs.append(H(nm("plus"), "a: int, b: int", rng.format("a") + " and " + rng.format("b"),
                    "r = results(lambda: %s)\nreturn r != \"error\" and %s" % (call, ok), {"kind": "plus" + mode}))
    hs.append(H(nm("plus"), "a: int, b: int, c: int", " and ".join(small.format(v) for v in "abc"), '''
r = results(lambda: eb._builtin_plus(Constant(a), Constant(b), Constant(c)))
return r != "error" and (len(r) == 1) == (a + b == c)''', {"kind": "plus(+,+,+)"}))
    # length/2
    for k in range(0, 4):
        items = ", ".join(["A", "B", "C"][:k])
        hs.append(H(nm("length"), "n: int", "-2 <= n <= 5", '''
L = mklist([%s])
r1 = results(lambda: eb._builtin_length(L, -1))
r2 = results(lambda: eb._builtin_length(L, Constant(n)))
return r1 != "error" and len(r1) == 1 and val(r1[0][1]) == %d and r2 != "error" and (len(r2) == 1) == (n == %d)''' % (items, k, k),
                    {"kind": "length(list of %d, N)" % k}))
    hs.append(H(nm("length"), "n: int", "-2 <= n <= 4", '''
r = results(lambda: eb._builtin_length(-1, Constant(n), engine=E, context=[]))
if n < 0:
    return r == "error" or r == []
els, tail = elements(r[0][0])
return len(r) == 1 and len(els) == n and eb._is_list_empty(tail) and len(set(els)) == n and all(eb._is_var(e) for e in els)''',
                {"kind": "length(-, N)"}))
    hs.append(H(nm("length"), "n: int", "-2 <= n <= 4", '''
r = results(lambda: eb._builtin_length(mklist([A], -1), Constant(n), engine=E, context=[]))
if n < 1:
    return r == "error" or r == []
els, tail = elements(r[0][0])
return len(r) == 1 and len(els) == n and eb._is_list_empty(tail) and els[0] == A''', {"kind": "length([a|T], N)"}))
    # arg/3, functor/3, =../2
    hs.append(H(nm("arg"), "n: int", "-2 <= n <= 5", '''
T = Term('f', A, B, C)
r = results(lambda: eb._builtin_arg(Constant(n), T, -1))
if 1 <= n <= 3:
    return r != "error" and len(r) == 1 and r[0][2] == [A, B, C][n - 1]
return r == "error" or r == []''', {"kind": "arg(N, f(a,b,c), -)"}))
    hs.append(H(nm("arg"), "n: int", "-2 <= n <= 5", '''
T = Term('f', A, B, C)
r = results(lambda: eb._builtin_arg(Constant(n), T, B))
return r != "error" and (len(r) == 1) == (n == 2)''', {"kind": "arg(N, f(a,b,c), b)"}))
    hs.append(H(nm("functor"), "n: int", "0 <= n <= 4", '''
r = results(lambda: eb._builtin_functor(-1, Term('f'), Constant(n), engine=E, context=[-1, Term('g', -3)]))
t = r[0][0]
return (r != "error" and len(r) == 1 and t.functor == 'f' and t.arity == n and all(eb._is_var(x) for x in t.args)
        and len(set(t.args)) == n and all(x < -3 for x in t.args))''',
                {"kind": "functor(-, f, N)"}))
    hs.append(H(nm("functor"), "n: int", "-1 <= n <= 4", '''
r = results(lambda: eb._builtin_functor(Term('f', A, B), Term('f'), Constant(n)))
r2 = results(lambda: eb._builtin_functor(Term('f', A, B), -1, -2))
return r != "error" and (len(r) == 1) == (n == 2) and len(r2) == 1 and r2[0][1] == Term('f') and val(r2[0][2]) == 2''',
                {"kind": "functor(f(a,b), f, N)"}))
    hs.append(H(nm("univ"), "n: int", "-3 <= n <= 3", '''
r = results(lambda: eb._builtin_split_call(Term('f', Constant(n), B), -1))
els, tail = elements(r[0][1])
r2 = results(lambda: eb._builtin_split_call(-1, mklist([Term('g'), Constant(n)])))
r3 = results(lambda: eb._builtin_split_call(-1, mklist([Constant(n)])))
return (len(r) == 1 and els == [Term('f'), Constant(n), B] and eb._is_list_empty(tail)
        and len(r2) == 1 and r2[0][0] == Term('g', Constant(n)) and len(r3) == 1 and r3[0][0] == Constant(n))''',
                {"kind": "=../2"}))
    # type tests: expected truth value per shape (standard Prolog)
    shapes = [("-1", "var"), ("A", "atom"), ("Term(\"'hello world'\")", "atom"), ("Term('[]')", "atom[]"),
              ("Constant(i)", "int"), ("Constant(D(n))", "float"), ("Term('f', A)", "compound"),
              ("Term('f', -1)", "compound-nonground"), ("mklist([A, Constant(i)])", "list"), ("mklist([A], -1)", "partial-list")]
    expect = {
        "var": {"var"}, "nonvar": {"atom", "atom[]", "int", "float", "compound", "compound-nonground", "list", "partial-list"},
        "atom": {"atom", "atom[]"}, "atomic": {"atom", "atom[]", "int", "float"}, "number": {"int", "float"},
        "integer": {"int"}, "float": {"float"}, "compound": {"compound", "compound-nonground", "list", "partial-list"},
        "callable": {"atom", "atom[]", "compound", "compound-nonground", "list", "partial-list"},
        "is_list": {"atom[]", "list"}, "ground": {"atom", "atom[]", "int", "float", "compound", "list"},
    }
    for test, yes in expect.items():
        body = []
        for expr, cls in shapes:
            if test == "is_list" and cls == "partial-list":
                continue
            body.append("if bool(eb._builtin_%s(%s)) != %r:\n    return False" % (test, expr, cls in yes))
        body.append("return True")
        hs.append(H(nm("type"), "i: int, n: int", rng.format("i") + " and -24 <= n <= 24", "\n".join(body),
                    {"kind": "type test %s/1" % test}))
    hs.append(H(nm("type"), "i: int", rng.format("i"), "return not eb._builtin_is_list(mklist([A, Constant(i)], -1))",
                {"kind": "type test is_list/1 on a partial list"}))
    return hs


ATOM_NUMBER = [("'12'", 12), ("'-3'", -3), ("abc", None), ("'1.5'", 1.5), ("'1.0'", 1.0)]


def concrete_atom_number(st):
    ns = {}
    exec(PREAMBLE, ns)
    eb, Term, Constant = ns["eb"], ns["Term"], ns["Constant"]
    for text, exp in ATOM_NUMBER:
        r = ns["results"](lambda: eb._builtin_atom_number(Term(text), -1))
        okey = "atom_number:%s" % text
        if exp is None:
            ok = (r == [] or r == "error")
        else:
            ok = r != "error" and len(r) == 1 and type(r[0][1].functor) == type(exp) and r[0][1].functor == exp
        st.ob("proved" if ok else "refuted", key=okey)
        if not ok:
            st.violation("atom_number:%s" % ("float-text-read-as-int" if isinstance(exp, float) else text),
                         "atom_number(%s, X) gives %s, expected %r" % (text, r, exp), {"kind": "atom_number", "text": text})
    r = ns["results"](lambda: eb._builtin_atom_number(-1, Constant(12)))
    ok = r != "error" and len(r) == 1 and str(r[0][0]) == "12"
    st.ob("proved" if ok else "refuted", key="atom_number:(-,12)")
    if not ok:
        st.violation("atom_number:(-,+)", "atom_number(A, 12) gives %s" % (r,), {"kind": "atom_number", "text": "(-,12)"})


def main(tier, seed):
    run = Run("C16", tier, seed, "other",
              "one CrossHair condition per (function or builtin, call mode): integer operands are symbolic (|v| <= 10^6 "
              "unless stated), floats are the dyadic values n/8 with symbolic n; the postcondition compares the real "
              "compute_function / builtin with a reference written from the semantics Yap and SWI-Prolog share "
              "(vlib/arith_ref.py); where they differ or the docs state a deviation nothing is asserted.")
    run.functions = FUNCS
    hs = harnesses(tier)
    timeout = 20 if tier == "quick" else 60
    run.assumptions = ["reference = ISO/Yap/SWI common semantics: // truncates toward zero, div floors, mod has the sign of the "
                       "divisor, round and integer round half away from zero, sign and abs keep the type, float_integer_part "
                       "returns a float; NOT asserted: rem (documented deviation), int/int with /, ** on ints, negative shift "
                       "counts / exponents, min/max of mixed types, transcendental functions",
                       "floats: dyadic n/8 (exactly representable, within Constant's 15-decimal rounding); CrossHair treats "
                       "floats as reals", "term shapes for inspection builtins are enumerated; atom_number/2 is evaluated on "
                       "concrete atoms (text -> number conversion is not symbolic)", "'Not confirmed' is inconclusive"]
    st = Stats()
    res, cpu = xh.run(hs, PREAMBLE, per_condition_timeout=timeout, per_module=2)
    byname = dict((h.name, h) for h in hs)
    for name, (verdict, detail) in sorted(res.items()):
        h = byname[name]
        okey = "%s:%s" % (h.meta["kind"], h.meta.get("op", ""))
        if verdict == "confirmed":
            st.ob("proved", key=okey)
        elif verdict == "inconclusive":
            st.ob("inconclusive", key=okey, note="%s: %s" % (okey, detail[:60]))
        else:
            call = xh.parse_call(detail)
            ok = False
            if call:
                kind, val = xh.call_harness(PREAMBLE, h, call[1], call[2])
                ok = (kind == "exc") or (val is False)
            if ok:
                st.ob("refuted", key=okey)
                st.violation(okey, "%s %s with operands %s: %s" % (h.meta["kind"], h.meta.get("op", ""), call[1:],
                                                                   "raised %r" % val if kind == "exc" else "differs from the reference"),
                             {"kind": "xh", "harness": h.source, "name": h.name, "args": list(call[1]), "kwargs": call[2]})
            else:
                st.ob("inconclusive", key=okey, note="counterexample did not replay: %s" % detail[:100])
    for h in hs[:2] + hs[-1:]:
        st["samples"].append({"harness": h.source})
    concrete_atom_number(st)
    st["solver_time"] += cpu
    st["queries"] += len(hs)
    st["programs"] = len(hs)
    run.merge(st)
    run.bounds = {"crosshair_conditions": len(hs), "per_condition_timeout_s": timeout, "int_range": "|v| <= 10^6",
                  "float_values": "n/8, |n| <= 24 (selector)"}
    run.extra["rule"] = "one obligation per function/builtin and call mode"
    return run.finish()


def replay(obj):
    if obj.get("kind") == "atom_number":
        st = Stats()
        concrete_atom_number(st)
        return any(obj["text"] in v["what"] for v in st["violations"])
    h = xh.Harness(obj["name"], obj["harness"])
    kind, val = xh.call_harness(PREAMBLE, h, obj["args"], obj.get("kwargs") or {})
    return kind == "exc" or val is False

"""C22 Sampling draws from the program's distribution (E6: the real sampler under a symbolic random stream)."""
import random as pyrandom
import re
import time
from fractions import Fraction

import z3

import problog.tasks.sample as ps
from problog.program import PrologString

from vlib import gen, refsem, symsem
from vlib.common import Run, Stats, pmap, short_hash
from vlib.gen import A, P, N
from vlib.semcheck import call_site, parse_atom

FUNCS = ["problog.tasks.sample.sample (generator loop, rejection)", "problog.tasks.sample.SampledFormula.{add_atom,compute_probability,"
         "add_and,add_or,add_not,to_string}", "problog.tasks.sample.{init_db,ground,verify_evidence}", "engine grounding into a SampledFormula"]


class Cut(Exception):
    """raised when the sampler starts a second attempt: the first one was rejected"""


class Driver(object):
    """DFS over the outcomes of the comparisons made on the symbolic uniforms u_i in [0,1)."""

    def __init__(self):
        self.pending = [[]]
        self.script = []
        self.taken = []      # (threshold as Fraction, outcome)
        self.draws = 0

    def start(self, script):
        self.script = list(script)
        self.taken = []
        self.draws = 0

    def decide(self, c):
        """outcome of 'u < c' (or 'u <= c': same measure) for a fresh uniform u"""
        c = Fraction(c).limit_denominator(10 ** 9)
        if c >= 1:
            self.taken.append((Fraction(1), True))
            return True
        if c <= 0:
            self.taken.append((Fraction(0), False))
            return False
        i = len([t for t in self.taken if 0 < t[0] < 1])
        if i < len(self.script):
            out = self.script[i]
        else:
            out = True
            self.pending.append([o for (t, o) in self.taken if 0 < t < 1] + [False])
        self.taken.append((c, out))
        return out

    def mass(self):
        m = Fraction(1)
        for c, out in self.taken:
            m *= c if out else (1 - c)
        return m


class U(object):
    """a symbolic uniform variate; each instance is compared exactly once"""

    def __init__(self, drv):
        self.drv = drv
        self.used = False

    def _cmp(self, c):
        if self.used:
            raise RuntimeError("a uniform variate was compared twice (driver assumption violated)")
        self.used = True
        return self.drv.decide(c)

    def __lt__(self, c):
        return self._cmp(c)

    def __le__(self, c):
        return self._cmp(c)


class RandomStub(object):
    def __init__(self, drv):
        self.drv = drv

    def random(self):
        self.drv.draws += 1
        return U(self.drv)

    def __getattr__(self, name):
        return getattr(pyrandom, name)


def sample_program(rng):
    nf = rng.randint(1, 4)
    prog, values, atoms = [], {}, []
    k = 0
    grid = [Fraction(i, 10) for i in range(1, 10)]
    for i in range(nf):
        k += 1
        prog.append(("ad", [("p%d" % k, A("f%d" % i))], []))
        atoms.append(A("f%d" % i))
        values["p%d" % k] = rng.choice(grid)
    if rng.random() < 0.5:
        heads = []
        body = [P(rng.choice(atoms))] if rng.random() < 0.4 else []
        for j, v in enumerate(rng.choice([[Fraction(1, 5), Fraction(1, 2)], [Fraction(3, 10), Fraction(7, 10)],
                                          [Fraction(1, 4), Fraction(1, 4), Fraction(1, 4)], [Fraction(1, 10), Fraction(3, 5)]])):
            k += 1
            heads.append(("p%d" % k, A("h%d" % j)))
            values["p%d" % k] = v
        prog.append(("ad", heads, body))
        atoms += [a for _, a in heads]
    # first-order facts reached through different call patterns (u(X) and u(b)) within one sample
    fo = []
    if rng.random() < 0.5:
        for c in ("a", "b"):
            k += 1
            prog.append(("ad", [("p%d" % k, A("u", c))], []))
            values["p%d" % k] = rng.choice(grid)
            atoms.append(A("u", c))
        fo = [A("u", "X"), A("u", "X")]
    ders = []
    for j in range(rng.randint(1, 3)):
        d = A("d%d" % j)
        for _ in range(rng.randint(1, 2)):
            body = []
            for _ in range(rng.randint(1, 2)):
                a_ = rng.choice(atoms + ders + fo)
                body.append((a_, rng.random() < 0.3 and not gen.is_var(a_[1][0] if a_[1] else "c")))
            body = [l for l in body if not l[1]] + [l for l in body if l[1]]
            prog.append(("rule", d, body))
        ders.append(d)
    if rng.random() < 0.6:
        prog.append(("evidence", rng.choice(ders + atoms), rng.random() < 0.6))
    for a in atoms + ders:
        prog.append(("query", a))
    return prog, values


def run_path(text, drv, script, propagate):
    """one attempt of the real sampler under the scripted comparison outcomes"""
    drv.start(script)
    count = [0]
    last = [None]
    Base = ps.SampledFormula

    class Counting(Base):
        def __init__(self, **kw):
            count[0] += 1
            if count[0] > 1:
                raise Cut()
            Base.__init__(self, **kw)
            last[0] = self

    saved_random, saved_cls = ps.random, ps.SampledFormula
    ps.random = RandomStub(drv)
    ps.SampledFormula = Counting
    try:
        g = ps.sample(PrologString(text), n=1, format="str", propagate_evidence=propagate, with_facts=True, with_probability=True)
        try:
            out = next(g)
            return "accepted", out, last[0]
        except Cut:
            return "rejected", None, last[0]
        finally:
            g.close()
    finally:
        ps.random, ps.SampledFormula = saved_random, saved_cls


def work(item):
    name, seedstr, propagate = item[:3]
    qmode = item[3] if len(item) > 3 else "all"
    rng = pyrandom.Random(seedstr)
    prog, values = sample_program(rng)
    if qmode == "sub":
        # only some atoms are queried: the rest of the program is reached through the evidence only (or not at all)
        rq = pyrandom.Random(seedstr + "/queries")
        qs = [s_ for s_ in prog if s_[0] == "query"]
        keep = rq.sample(qs, rq.randint(1, max(1, len(qs) // 2)))
        prog = [s_ for s_ in prog if s_[0] != "query" or s_ in keep]
    st = Stats()
    st["programs"] = 1
    text = symsem.substitute_params(gen.program_text(prog), values)
    pkey = short_hash(text + str(propagate))   # the text contains the query lines
    st["samples"].append({"name": name, "program": text, "propagate_evidence": propagate})
    G = refsem.ground(prog)
    phi = refsem.semantics(G, refsem.Z3Alg)
    Fz = z3.BoolVal(False)
    legal = refsem.legal_constraints(G)
    ev = [(phi.get(a, Fz) if v else z3.Not(phi.get(a, Fz))) for a, v in G.evidence]
    phi_e = z3.And(*ev) if ev else z3.BoolVal(True)
    qatoms = [s[1] for s in prog if s[0] == "query"]
    # exact reference distribution over the vectors of query atoms, given the evidence
    tabs = refsem.truth_table(G, qatoms + [a for a, _ in G.evidence])
    n = refsem.world_count(G)
    e_tab = [True] * n
    for a, v in G.evidence:
        e_tab = [x and (y if v else not y) for x, y in zip(e_tab, tabs[a])]
    pe = refsem.exact_probability(G, e_tab, values)
    if pe == 0:
        st.ob("inconclusive", note="evidence has probability zero")
        return st
    ref_dist = {}
    for w in range(n):
        if e_tab[w]:
            vec = tuple(tabs[a][w] for a in qatoms)
            t = ref_dist.setdefault(vec, [False] * n)
            t[w] = True
    ref_dist = dict((vec, refsem.exact_probability(G, t, values) / pe) for vec, t in ref_dist.items())
    fact_var = {}
    for a, cls in G.clauses.items():
        for ch, body in cls:
            if ch is not None:
                fact_var.setdefault(gen.atom_str(a), z3.Bool(ch))
    s = z3.Solver()
    s.set("timeout", 20000)
    for c in legal:
        s.add(c)

    def chk(*conds):
        s.push()
        for c in conds:
            s.add(c)
        t = time.time()
        r = str(s.check())
        st["solver_time"] += time.time() - t
        st["queries"] += 1
        s.pop()
        return r

    has_ad = any(len(g.heads) > 1 for g in G.groups)

    def violation(kind, what, script):
        prefix = ""
        if propagate:
            prefix = "propagate:ad+evidence:" if (has_ad and G.evidence) else "propagate:"
        st.violation("%s%s" % (prefix, kind), what,
                     {"seed": seedstr, "propagate": propagate, "qmode": qmode, "script": script, "program": text})

    drv = Driver()
    acc_mass = Fraction(0)
    got = {}
    paths = 0
    while drv.pending:
        script = drv.pending.pop()
        paths += 1
        if paths > 4096:
            st.ob("inconclusive", note="more than 4096 paths")
            return st
        try:
            status, out, target = run_path(text, drv, script, propagate)
        except Exception as e:
            st.ob("refuted", key="raise:%s:%s" % (pkey, script))
            st.violation("raised:%s@%s" % (type(e).__name__, call_site(e)), "the sampler raised %s: %s on comparison outcomes %s" % (
                type(e).__name__, e, script), {"seed": seedstr, "propagate": propagate, "qmode": qmode, "script": script, "program": text})
            return st
        mu = drv.mass()
        okey = "%s:%s" % (pkey, "".join("1" if b else "0" for b in script))
        if status == "rejected":
            # its measure is accounted for below: accepted mass must equal P(evidence) exactly
            st["rejected_paths"] = st.get("rejected_paths", 0) + 1
            continue
        acc_mass += mu
        lines = [l.strip() for l in out.split("\n") if l.strip()]
        printed_p = None
        true_q, fact_lits = set(), []
        for l in lines:
            m = re.match(r"^% Probability: (.*)$", l)
            if m:
                printed_p = float(m.group(1))
                continue
            l = l.rstrip(".")
            if l.startswith("\\+"):
                fact_lits.append((l[2:], False))
            else:
                true_q.add(l)
        vec = tuple(gen.atom_str(a) in true_q for a in qatoms)
        got[vec] = got.get(vec, Fraction(0)) + mu
        # (1) the printed sample (all atoms are queried) is the atom valuation of a legal world of the reference
        #     semantics that satisfies the evidence
        same = [phi.get(a, Fz) == z3.BoolVal(gen.atom_str(a) in true_q) for a in qatoms]
        r = chk(*(same + [phi_e]))
        if r == "unsat":
            st.ob("refuted", key=okey + ":world")
            violation("sample-not-a-world", "sample %s is not the set of true atoms of any world of the program consistent with the "
                      "evidence" % (sorted(true_q),), script)
        else:
            st.ob("proved" if r == "sat" else "inconclusive", key=okey + ":world")
        # (2) the printed probability is the product of the probabilities of the choices made
        if printed_p is None or abs(printed_p - float(mu)) > 1e-7 * max(1.0, float(mu)):
            st.ob("refuted", key=okey + ":prob")
            violation("printed-probability", "printed probability %s, product of the choice probabilities %s" % (printed_p, mu), script)
        else:
            st.ob("proved", key=okey + ":prob")
    # (3) exact distribution of the accepted samples
    okey = pkey + ":distribution"
    if acc_mass == 0:
        st.ob("refuted", key=okey)
        violation("never-accepts", "no random stream leads to an accepted sample although P(evidence) = %s" % pe, [])
        return st
    bad = None
    for vec in set(got) | set(ref_dist):
        a = got.get(vec, Fraction(0)) / acc_mass
        b = ref_dist.get(vec, Fraction(0))
        if a != b and abs(float(a) - float(b)) > 1e-9:
            bad = "query-atom vector %s (%s): sampled with probability %s, conditional probability %s" % (
                vec, [gen.atom_str(x) for x in qatoms], a, b)
    st.ob("refuted" if bad else "proved", key=okey)
    if bad:
        violation("distribution", bad, [])
    if not propagate and acc_mass != pe and abs(float(acc_mass) - float(pe)) > 1e-9:
        st.ob("refuted", key=pkey + ":acceptance")
        violation("acceptance-mass", "accepted mass %s differs from P(evidence) = %s" % (acc_mass, pe), [])
    else:
        st.ob("proved", key=pkey + ":acceptance")
    st["paths"] = paths
    return st


def main(tier, seed):
    run = Run("C22", tier, seed, "other",
              "the real sample() generator runs with problog.tasks.sample.random replaced by a stub returning symbolic uniforms; a "
              "DFS driver explores EVERY outcome pattern of the comparisons the sampler makes on them, i.e. every random stream up "
              "to measure; per path z3 proves (for all completions of unsampled choices) that the printed sample is a world of the "
              "reference semantics consistent with the evidence, and the exact rational measure of the paths gives the exact "
              "distribution of accepted samples, compared with the exact conditional distribution")
    run.functions = FUNCS
    run.assumptions = ["each uniform variate is compared once with a concrete threshold (asserted by the driver), so a path is a vector of "
                       "comparison outcomes and its measure the product of the threshold masses", "programs seeded: 1-4 facts, optional AD "
                       "(with body), acyclic rules with negation, optional evidence; <= 4096 paths", "convergence of frequencies / --estimate follows from "
                       "the law of large numbers applied to i.i.d. draws of the exact distribution proved here; not tested statistically",
                       "continuous distributions and the PRNG itself are outside the claim"]
    n = 40 if tier == "quick" else 1200
    items = []
    for i in range(n):
        items.append(("s/%d/%d" % (seed, i), "c22/%s/%s" % (seed, i), False))
        if i % 3 == 0:
            items.append(("s/%d/%d+pe" % (seed, i), "c22/%s/%s" % (seed, i), True))
        items.append(("s/%d/%d/sub" % (seed, i), "c22/%s/%s" % (seed, i), False, "sub"))
        if i % 2 == 0:
            items.append(("s/%d/%d/sub+pe" % (seed, i), "c22/%s/%s" % (seed, i), True, "sub"))
    run.bounds = {"programs": len(items), "max_paths": 4096}
    paths = 0
    for st in pmap(work, items, item_timeout=300):
        paths += st.get("paths", 0)
        run.merge(st)
    run.extra["paths_explored"] = paths
    run.extra["rule"] = "one obligation per explored random-stream path (world consistency, printed probability) and per program (distribution, acceptance mass)"
    return run.finish()


def replay(obj):
    st = work(("replay", obj["seed"], obj["propagate"], obj.get("qmode", "all")))
    return bool(st["violations"])

"""C31 Bayesian-network export preserves the distribution (E1 + own variable elimination over z3 reals)."""
import itertools
import random

import z3

import problog.logic as pl
from problog.formula import LogicDAG
from problog.parser import DefaultPrologParser
from problog.program import PrologString, ExtendedPrologFactory
from problog.tasks.bayesnet import formula_to_bn
from problog.pgm.cpd import OrCPT

from vlib import gen, symsem, sym
from vlib.sym import SymReal
from vlib.common import Run, Stats, pmap, short_hash

FUNCS = ["problog.tasks.bayesnet.formula_to_bn / clause_to_cpt / term_to_bool / term_to_atoms",
         "problog.pgm.cpd.{PGM.add_var,add_factor,Factor,OrCPT.to_factor,OrCPT.__add__}",
         "problog.formula.LogicFormula.enum_clauses (input of the export)", "evaluation pipeline as in C01 (reference side of the comparison)"]


def export_options():
    """the options problog.tasks.bayesnet.main passes to LogicDAG.createFrom, read from its source"""
    import inspect
    import re
    import problog.tasks.bayesnet as bt
    src = inspect.getsource(bt.main)
    opts = {}
    for k in ("label_all", "avoid_name_clash", "keep_order"):
        m = re.search(r"%s\s*=\s*(True|False)" % k, src)
        if m:
            opts[k] = (m.group(1) == "True")
    opts["keep_all"] = False
    opts["keep_duplicates"] = False
    return opts


def to_z3(x):
    if isinstance(x, SymReal):
        return x.z3()
    return sym.rv(x)


def bn_symbolic(text, params, options=None):
    """Real formula_to_bn with symbolic CPT entries (parameter atoms made evaluable)."""
    drv = sym.PathDriver([], timeout_ms=10000, max_paths=4)
    drv.params = dict((p, sym.param(p, None)) for p in params)
    saved = {}
    for p in params:
        saved[p] = pl._arithmetic_functions.get((p, 0))
        pl._arithmetic_functions[(p, 0)] = (lambda p=p: drv.params[p])
    try:
        def once():
            gp = LogicDAG.createFrom(PrologString(text, parser=DefaultPrologParser(ExtendedPrologFactory())),
                                     **(options or export_options()))
            return formula_to_bn(gp), [str(q) for q, _ in gp.queries()]
        paths = drv.explore(once)
    finally:
        for p in params:
            if saved[p] is None:
                pl._arithmetic_functions.pop((p, 0), None)
            else:
                pl._arithmetic_functions[(p, 0)] = saved[p]
    if len(paths) == 1 and paths[0][1] == "exc":
        raise ExportRaised(paths[0][2])
    if len(paths) != 1:
        raise sym.Inconclusive("export forked")
    return paths[0][2]


class MalformedNetwork(Exception):
    pass


class ExportRaised(Exception):
    pass


def ve_marginal(bn, qvar):
    """Independent sum-product variable elimination: P(qvar = 1) as a z3 real term."""
    doms = dict((name, list(v.values)) for name, v in bn.vars.items())
    for name, f in bn.factors.items():
        for p in list(f.parents) + [name]:
            if p not in doms:
                raise MalformedNetwork("factor of %s refers to %s, which is not a variable of the network" % (name, p))
    factors = []
    for name, f in bn.factors.items():
        if isinstance(f, OrCPT):
            parents = sorted(set(pv[0] for pv in f.parentvalues))
            pvals = set((a, b) for a, b in f.parentvalues)
            scope = tuple(parents) + (name,)
            table = {}
            for keys in itertools.product(*[doms[p] for p in parents]):
                on = any((p, k) in pvals for p, k in zip(parents, keys))
                table[keys + (1,)] = z3.RealVal(1 if on else 0)
                table[keys + (0,)] = z3.RealVal(0 if on else 1)
            factors.append((scope, table))
        else:
            parents = list(f.parents)
            scope = tuple(parents) + (name,)
            table = {}
            for keys, row in f.table.items():
                pk = tuple((1 if k is True else 0 if k is False else k) for k in keys)
                for val, pr in zip(doms[name], row):
                    table[pk + (val,)] = to_z3(pr)
            factors.append((scope, table))
    order = [v for v in doms if v != qvar]
    # eliminate variables, smallest resulting scope first
    while order:
        best, bsize = None, None
        for v in order:
            sc = set()
            for scope, _ in factors:
                if v in scope:
                    sc |= set(scope)
            size = 1
            for x in sc:
                size *= len(doms[x])
            if bsize is None or size < bsize:
                best, bsize = v, size
        v = best
        order.remove(v)
        rel = [(s, t) for s, t in factors if v in s]
        factors = [(s, t) for s, t in factors if v not in s]
        if not rel:
            continue
        nscope = tuple(sorted(set(x for s, _ in rel for x in s) - {v}))
        ntable = {}
        for keys in itertools.product(*[doms[x] for x in nscope]):
            asg = dict(zip(nscope, keys))
            total = None
            for val in doms[v]:
                asg[v] = val
                prod = None
                for s, t in rel:
                    e = t.get(tuple(asg[x] for x in s))
                    if e is None:
                        e = z3.RealVal(0)
                    prod = e if prod is None else prod * e
                total = prod if total is None else total + prod
            ntable[keys] = z3.simplify(total)
        factors.append((nscope, ntable))
    res = {0: None, 1: None}
    for val in (0, 1):
        prod = None
        for s, t in factors:
            e = t.get(tuple(val for _ in s)) if s else t.get(())
            prod = e if prod is None else prod * e
        res[val] = prod
    return res[1], res[0]


def work(item):
    name, prog = item
    st = Stats()
    st["programs"] = 1
    text = gen.program_text(prog)
    params = symsem.find_params(text)
    groups = gen.ad_groups_of(prog)
    region = symsem.default_region(params, groups)
    pkey = short_hash(text)
    if len(st["samples"]) < 1:
        st["samples"].append({"name": name, "program": text})
    try:
        outs, drv = symsem.run_real(text, params, region=region)
    except (sym.Unsupported, sym.Inconclusive) as e:
        st.ob("inconclusive", note=str(e)[:100])
        return st
    if len(outs) != 1 or outs[0].kind != "ok":
        st.ob("inconclusive", note="inference side forked or raised")
        return st
    ref = outs[0].results
    pv = symsem.Prover(region, 20000)
    documented = dict(export_options())
    documented["avoid_name_clash"] = True
    for cfg, options in (("task", None), ("documented", documented)):
        if cfg == "documented" and export_options() == documented:
            continue
        _check_export(st, text, params, groups, region, pkey, ref, pv, cfg, options)
    st["solver_time"] += pv.solver_time
    st["queries"] += pv.queries
    return st


def _check_export(st, text, params, groups, region, pkey, ref, pv, cfg, options):
    try:
        bn, queries = bn_symbolic(text, params, options)
    except (sym.Unsupported, sym.Inconclusive) as e:
        st.ob("inconclusive", note=str(e)[:100])
        return
    except ExportRaised as e:
        from vlib import diffcheck
        from vlib.semcheck import call_site
        exc = e.args[0]
        dv = diffcheck.default_values(params, groups)
        rep = replay_export_raises(text, dv, options)
        if rep:
            st.ob("refuted", key="raise:" + pkey)
            st.violation((classify if cfg == 'task' else (lambda t, q_, v, d: 'documented-options:' + d))(text, None, dv, "export-raised:%s@%s" % (type(exc).__name__, call_site(exc))),
                         "bn export raised %s: %s" % (type(exc).__name__, exc),
                         {"program": text, "values": dict((k, str(x)) for k, x in dv.items())})
        else:
            st.ob("inconclusive", note="symbolic export raised %s but the concrete one does not" % type(exc).__name__)
        return
    for q in queries:
        okey = "bn-%s:%s:%s" % (cfg, pkey, q)
        if q not in ref:
            continue
        num, den = ref[q]
        if q not in bn.vars:
            # the property speaks about the EXPORTED query variables: a query that shares its node with another
            # name is not exported under its own name - nothing to compare
            st.ob("inconclusive", key=okey, note="query %s is not a variable of the exported network" % q)
            continue
        try:
            p1, p0 = ve_marginal(bn, q)
        except MalformedNetwork as e:
            from vlib import diffcheck
            dv = diffcheck.default_values(params, groups)
            st.ob("refuted", key=okey)
            st.violation((classify if cfg == 'task' else (lambda t, q_, v, d: 'documented-options:' + d))(text, q, dv, "malformed-network"), "query %s: %s" % (q, e),
                         {"program": text, "values": dict((k, str(x)) for k, x in dv.items()), "query": q})
            continue
        v, m = pv.frac_equal((num, den), (p1, None))
        if v == "proved":
            st.ob("proved", key=okey)
        elif v == "refuted":
            vals = symsem.model_values(m, params)
            rep = replay_one(text, q, vals, options)
            if rep:
                st.ob("refuted", key=okey)
                st.violation((classify if cfg == 'task' else (lambda t, q_, v, d: 'documented-options:' + d))(text, q, vals, "marginal:%s" % pkey), "query %s: %s" % (q, rep),
                             {"program": text, "query": q, "values": dict((k, str(x)) for k, x in vals.items()), "options": options})
            else:
                st.harness_error("C31 model did not replay: %s %s %s" % (text, q, vals))
        else:
            st.ob("inconclusive", key=okey, note="z3 unknown")
        # the network is normalised for every parameter value
        v2, _ = pv.frac_equal((p1 + p0, None), (z3.RealVal(1), None))
        if v2 == "refuted" and replay_not_normalised(text, q, symsem.model_values(_, params), options) is None:
            v2 = "inconclusive"
        st.ob("proved" if v2 == "proved" else "inconclusive" if v2 != "refuted" else "refuted", key=okey + ":norm")
        if v2 == "refuted":
            vals2 = symsem.model_values(_, params) if _ is not None else {}
            from vlib import diffcheck
            for p_, v_ in diffcheck.default_values(params, groups).items():
                vals2.setdefault(p_, v_)
            key = (classify if cfg == 'task' else (lambda t, q_, v, d: 'documented-options:' + d))(text, q, vals2, "not-normalised:%s" % pkey)
            st.violation(key, "the exported network's marginal of %s does not sum to 1" % q,
                         {"program": text, "query": q, "values": dict((k, str(x)) for k, x in vals2.items()), "options": options,
                          "kind": "not-normalised"})


def replay_one(text, q, vals, options=None):
    """Concrete: default-semiring probability vs marginal of the concretely exported network."""
    from fractions import Fraction
    ntext = symsem.substitute_params(text, vals)
    kind, res = symsem.run_float(ntext)
    if kind != "ok":
        return None
    gp = LogicDAG.createFrom(PrologString(ntext, parser=DefaultPrologParser(ExtendedPrologFactory())),
                             **(options or export_options()))
    bn = formula_to_bn(gp)
    if q not in bn.vars:
        return "no variable %s in the network" % q
    try:
        p1, p0 = ve_marginal(bn, q)
    except MalformedNetwork as e:
        return str(e)
    val = z3.simplify(p1)
    f = float(val.numerator_as_long()) / float(val.denominator_as_long()) if z3.is_rational_value(val) else float(str(val.approx(12)).rstrip("?"))
    if abs(f - res[q]) > 1e-7:
        return "ProbLog %.9f, network marginal %.9f at %s" % (res[q], f, dict((k, str(v)) for k, v in vals.items()))
    return None


def replay_not_normalised(text, q, vals, options=None):
    """Concrete: do the two values of q's marginal in the exported network sum to 1?"""
    ntext = symsem.substitute_params(text, vals)
    gp = LogicDAG.createFrom(PrologString(ntext, parser=DefaultPrologParser(ExtendedPrologFactory())),
                             **(options or export_options()))
    bn = formula_to_bn(gp)
    if q not in bn.vars:
        return None
    try:
        p1, p0 = ve_marginal(bn, q)
    except MalformedNetwork as e:
        return str(e)
    tot = z3.simplify(p1 + p0)
    f = float(tot.numerator_as_long()) / float(tot.denominator_as_long()) if z3.is_rational_value(tot) else float(str(tot.approx(12)).rstrip("?"))
    if abs(f - 1.0) > 1e-9:
        return "marginal of %s sums to %s" % (q, f)
    return None


def replay_export_raises(text, vals, options=None):
    ntext = symsem.substitute_params(text, vals)
    try:
        gp = LogicDAG.createFrom(PrologString(ntext, parser=DefaultPrologParser(ExtendedPrologFactory())),
                                 **(options or export_options()))
        formula_to_bn(gp)
    except Exception as e:
        return "%s: %s" % (type(e).__name__, e)
    return None


def classify(text, q, vals, default):
    """Known finding: the task grounds with avoid_name_clash=False although to_prolog()/enum_clauses require True.
    Causal test: the same export with avoid_name_clash=True has the right marginal."""
    opts = export_options()
    if opts.get("avoid_name_clash") is False:
        o2 = dict(opts)
        o2["avoid_name_clash"] = True
        try:
            if q is None:
                if replay_export_raises(text, vals, options=o2) is None:
                    return "bn:grounded-without-avoid_name_clash"
            elif replay_one(text, q, vals, options=o2) is None:
                return "bn:grounded-without-avoid_name_clash"
        except Exception:
            pass
    return default


def twin_program(rng):
    """propositional skeleton in which several clause bodies mention the same atoms in the same order with different signs"""
    from vlib.gen import A
    nf = rng.randint(2, 4)
    prog = [("ad", [("p%d" % (i + 1), A("f%d" % i))], []) for i in range(nf)]
    atoms = [A("f%d" % i) for i in range(nf)]
    k = nf
    if rng.random() < 0.4:
        prog.append(("ad", [("p%d" % (k + 1), A("h0")), ("p%d" % (k + 2), A("h1"))], []))
        atoms += [A("h0"), A("h1")]
        k += 2
    heads = []
    for j in range(rng.randint(1, 2)):
        body_atoms = rng.sample(atoms, rng.randint(1, min(3, len(atoms))))
        for t in range(rng.randint(2, 3)):
            signs = [rng.random() < 0.5 for _ in body_atoms]
            h = A("d%d_%d" % (j, t))
            if rng.random() < 0.3:
                k += 1
                prog.append(("ad", [("p%d" % k, h)], [(a, sg) for a, sg in zip(body_atoms, signs)]))
            else:
                prog.append(("rule", h, [(a, sg) for a, sg in zip(body_atoms, signs)]))
            heads.append(h)
    if rng.random() < 0.5:
        prog.append(("rule", A("top"), [(rng.choice(heads), False), (rng.choice(heads), rng.random() < 0.5)]))
        heads.append(A("top"))
    for h in heads:
        prog.append(("query", h))
    return prog


def main(tier, seed):
    run = Run("C31", tier, seed, "translation_validation",
              "each acyclic evidence-free skeleton is exported by the real formula_to_bn with symbolic CPT entries; an "
              "independent variable elimination over the exported factor tables yields the marginal of every query variable "
              "as a z3 term, which z3 proves equal to ProbLog's query probability for all parameter values (and normalised)")
    run.functions = FUNCS
    run.assumptions = ["acyclic, evidence-free skeletons (seeded generator without recursion/evidence + hand corpus subset)",
                       "parameter atoms are made evaluable through problog.logic._arithmetic_functions (public table) so that CPT "
                       "entries are symbolic", "own variable elimination (props/c31.py) is trusted; floats as reals"]
    items = []
    for name, prog in gen.corpus():
        if not any(s[0] == "evidence" for s in prog) and name not in ("cycle-evidence-negation", "mutual-recursion", "recursion-through-ad",
                                                                      "cycle-first-proof-false"):
            items.append((name, prog))
    n = 60 if tier == "quick" else 1500
    for i in range(n):
        items.append(("gen/%d/%d" % (seed, i), gen.generate(seed, 31000 + i, max_choices=6, recursion=False, evidence=False, graphs=False)))
    for i in range(n // 2):
        items.append(("twin/%d/%d" % (seed, i), twin_program(random.Random("c31t/%s/%s" % (seed, i)))))
    run.bounds = {"skeletons": len(items), "max_choices": 6}
    for st in pmap(work, items, item_timeout=120):
        run.merge(st)
    return run.finish()


def replay(obj):
    from fractions import Fraction
    vals = dict((k, Fraction(v)) for k, v in (obj.get("values") or {}).items())
    if "query" not in obj:
        return bool(replay_export_raises(obj["program"], vals, obj.get("options")))
    if obj.get("kind") == "not-normalised":
        return bool(replay_not_normalised(obj["program"], obj["query"], vals, obj.get("options")))
    return bool(replay_one(obj["program"], obj["query"], vals, obj.get("options")))

"""C20 MPE returns a most probable world consistent with the evidence (z3 over the reference semantics)."""
import contextlib
import io
import random
from fractions import Fraction

import z3

from problog.program import PrologString
from problog.formula import LogicFormula, LogicDAG
from problog.tasks.mpe import mpe_maxsat, mpe_semiring

from vlib import gen, refsem, symsem
from vlib.common import Run, Stats, pmap, short_hash
from vlib.gen import A, P, N
from vlib.semcheck import call_site

FUNCS = ["problog.tasks.mpe.mpe_maxsat", "problog.tasks.mpe.mpe_semiring / SemiringMPEState", "problog.maxsat (weighted partial "
         "MaxSAT encoding, bundled maxsatz)", "problog.cnf_formula.CNF._contents (weighted encoding) / from_partial"]

TAU_MAXSAT = 2e-3      # relative tolerance granted by the property for the MaxSAT weight quantisation
TAU_SEMIRING = 1e-9


def mpe_program(rng):
    """propositional program: probabilistic facts, maybe one AD, acyclic rules with negation, evidence,
    queries on every probabilistic atom.  Returns (AST with parameters, values)."""
    nf = rng.randint(2, 5)
    prog, atoms, values = [], [], {}
    k = 0
    grid = [Fraction(i, 20) for i in range(1, 20)]
    for i in range(nf):
        k += 1
        prog.append(("ad", [("p%d" % k, A("f%d" % i))], []))
        atoms.append(A("f%d" % i))
        values["p%d" % k] = rng.choice(grid)
    has_ad = rng.random() < 0.4
    if has_ad:
        m = rng.randint(2, 3)
        heads = []
        parts = rng.choice([[Fraction(1, 5), Fraction(1, 2)], [Fraction(3, 10), Fraction(7, 10)], [Fraction(1, 4), Fraction(1, 4), Fraction(1, 2)],
                            [Fraction(1, 10), Fraction(3, 10), Fraction(2, 5)], [Fraction(3, 20), Fraction(9, 20)], [Fraction(1, 2), Fraction(1, 2)],
                            [Fraction(1, 20), Fraction(1, 5), Fraction(3, 20)]])
        for j, v in enumerate(parts):
            k += 1
            heads.append(("p%d" % k, A("h%d" % j)))
            atoms.append(A("h%d" % j))
            values["p%d" % k] = v
        prog.append(("ad", heads, []))
    nd = rng.randint(1, 4)
    ders = []
    for j in range(nd):
        d = A("d%d" % j)
        for _ in range(rng.randint(1, 2)):
            body = []
            for _ in range(rng.randint(1, 3)):
                pool = atoms + ders
                body.append((rng.choice(pool), rng.random() < 0.3))
            body = [l for l in body if not l[1]] + [l for l in body if l[1]]
            prog.append(("rule", d, body))
        ders.append(d)
    ne = rng.randint(1, 2)
    used = set()
    for _ in range(ne):
        e = rng.choice(ders if rng.random() < 0.8 else atoms)
        if e in used:
            continue
        used.add(e)
        prog.append(("evidence", e, rng.random() < 0.6))
    for a in atoms:
        prog.append(("query", a))
    return prog, values, has_ad


def weight_term(G, values):
    """z3 real: probability of the world described by the choice variables"""
    w = z3.RealVal(1)
    for g in G.groups:
        ps = [values[pr] for pr, _ in g.heads]
        none = 1 - sum(ps)
        term = z3.RealVal(str(none))
        for (pr, b), p in reversed(list(zip(g.heads, ps))):
            term = z3.If(z3.Bool(b), z3.RealVal(str(p)), term)
        w = w * term
    return w


def run_modes(text):
    out = {}
    try:
        dag = LogicDAG.createFrom(PrologString(text), avoid_name_clash=True, label_all=True, labels=[("output", 1)])
        out["maxsat"] = ("ok", mpe_maxsat(dag))
    except Exception as e:
        out["maxsat"] = ("exc", e)
    try:
        lf = LogicFormula.create_from(PrologString(text), label_all=True, avoid_name_clash=True)
        with contextlib.redirect_stderr(io.StringIO()):
            out["semiring"] = ("ok", mpe_semiring(lf))
    except Exception as e:
        out["semiring"] = ("exc", e)
    return out


def work(item):
    name, seedstr = item
    rng = random.Random(seedstr)
    prog, values, has_ad = mpe_program(rng)
    if seedstr.startswith("c20c/"):
        # family with certain facts: one or two probabilistic facts get probability exactly 1
        fs = sorted(k for k in values if any(len(s_[1]) == 1 and s_[1][0][0] == k for s_ in prog if s_[0] == "ad"))
        for k in rng.sample(fs, min(len(fs), rng.randint(1, 2))):
            values[k] = Fraction(1)
    st = Stats()
    st["programs"] = 1
    text = symsem.substitute_params(gen.program_text(prog), values)
    pkey = short_hash(text)
    G = refsem.ground(prog)
    phi = refsem.semantics(G, refsem.Z3Alg)
    F = z3.BoolVal(False)
    ev = [(phi.get(a, F) if v else z3.Not(phi.get(a, F))) for a, v in G.evidence]
    phi_e = z3.And(*ev) if ev else z3.BoolVal(True)
    legal = refsem.legal_constraints(G)
    logical = list(legal)
    # worlds of probability zero are not candidates: an AD summing to one must choose a head
    for g in G.groups:
        if sum(values[pr] for pr, _ in g.heads) == 1 and len(g.heads) > 1:
            legal.append(z3.Or(*[z3.Bool(b) for _, b in g.heads]))
    W = weight_term(G, values)
    atom_var = {}
    for g in G.groups:
        for pr, b in g.heads:
            pass
    # choice variable of each probabilistic atom (facts and AD heads are ground, one clause each)
    for a, cls in G.clauses.items():
        for ch, body in cls:
            if ch is not None and not body:
                atom_var[gen.atom_str(a)] = z3.Bool(ch)
    s = z3.Solver()
    s.set("timeout", 20000)
    for c in legal:
        s.add(c)

    def chk():
        import time
        t = time.time()
        r = str(s.check())
        st["solver_time"] += time.time() - t
        st["queries"] += 1
        return r
    s.push()
    s.add(phi_e)
    sat_e = chk()
    zero_mass_only = False
    if sat_e == "unsat" and len(logical) != len(legal):
        # the evidence may still hold in an assignment of probability zero (no head of an AD that sums to one): then the
        # property does not say whether 'unsatisfiable' or a world of probability 0 is the right answer - both are accepted
        s2 = z3.Solver()
        s2.set("timeout", 20000)
        for c in logical:
            s2.add(c)
        s2.add(phi_e)
        zero_mass_only = str(s2.check()) == "sat"
        st["queries"] += 1
    best = None
    if sat_e == "sat":
        # the optimum itself is not computed by enumeration: obligations are existential queries
        pass
    s.pop()
    st["samples"].append({"name": name, "program": text})
    res = run_modes(text)
    for mode in ("maxsat", "semiring"):
        kind, val = res[mode]
        tau = TAU_MAXSAT if mode == "maxsat" else TAU_SEMIRING
        okey = "%s:%s" % (mode, pkey)

        def violation(cls, what):
            key = "%s:%s" % (mode, cls)
            if mode == "semiring" and has_ad:
                key = "semiring:program-with-annotated-disjunction"
            elif mode == "semiring" and sat_e == "unsat":
                key = "semiring:inconsistent-evidence-answered"
            st.violation(key, "%s: %s" % (mode, what), {"seed": seedstr, "mode": mode, "program": text})

        if kind == "exc":
            unsat_reported = type(val).__name__ == "UnsatisfiableError"
            if unsat_reported and sat_e == "unsat":
                st.ob("proved", key=okey)
            elif unsat_reported:
                st.ob("refuted", key=okey)
                violation("unsat-reported", "reports an unsatisfiable model but the evidence is satisfiable")
            else:
                st.ob("refuted", key=okey)
                st.violation("%s:raised:%s@%s" % (mode, type(val).__name__, call_site(val)),
                             "%s raised %s: %s" % (mode, type(val).__name__, val), {"seed": seedstr, "mode": mode, "program": text})
            continue
        prob, facts = val
        if facts is None:
            # "The model is not satisfiable"
            if sat_e == "unsat":
                st.ob("proved", key=okey)
            else:
                st.ob("refuted", key=okey)
                violation("unsat-reported", "reports an unsatisfiable model but the evidence is satisfiable")
            continue
        if sat_e == "unsat" and zero_mass_only and prob is not None and abs(prob) <= 1e-12:
            st.ob("proved", key=okey + ":zero-probability-evidence")
            continue
        if sat_e == "unsat":
            st.ob("refuted", key=okey)
            violation("answered-unsat", "returns %s with probability %s although no world satisfies the evidence" % (sorted(map(str, facts)), prob))
            continue
        asg = []
        unknown = False
        for f in facts:
            neg = f.is_negated()
            nm = str(-f) if neg else str(f)
            if nm not in atom_var:
                unknown = True
                continue
            asg.append(z3.Not(atom_var[nm]) if neg else atom_var[nm])
        complete = len(asg) == len(atom_var) and not unknown
        # (i) the returned assignment is consistent with the evidence (in every completion if partial)
        s.push()
        for c in asg:
            s.add(c)
        s.add(z3.Not(phi_e))
        r1 = chk()
        s.pop()
        s.push()
        for c in asg:
            s.add(c)
        r0 = chk()
        s.pop()
        if r0 == "unsat":
            st.ob("refuted", key=okey + ":consistent")
            violation("contradictory", "returned assignment %s is not a legal world" % sorted(map(str, facts)))
            continue
        if r1 == "sat" and complete:
            st.ob("refuted", key=okey + ":consistent")
            violation("evidence", "returned world %s does not satisfy the evidence" % sorted(map(str, facts)))
            continue
        st.ob("proved" if r1 == "unsat" else "inconclusive", key=okey + ":consistent")
        # a partial assignment (choices the evidence does not depend on are left open) is read as the cube it
        # describes: its reported probability is the cube's probability, and its best completion must be optimal
        cube = z3.RealVal(1)
        best_rest = z3.RealVal(1)
        for g in G.groups:
            ps = [values[pr] for pr, _ in g.heads]
            none = 1 - sum(ps)
            names = [n for n, v in atom_var.items() if any(v.eq(z3.Bool(b)) for _, b in g.heads)]
            assigned_true = [i for i, (pr, b) in enumerate(g.heads) if any(c.eq(z3.Bool(b)) for c in asg)]
            assigned_false = [i for i, (pr, b) in enumerate(g.heads) if any(c.eq(z3.Not(z3.Bool(b))) for c in asg)]
            if assigned_true:
                cube = cube * z3.RealVal(str(ps[assigned_true[0]]))
            elif len(assigned_false) == len(g.heads):
                cube = cube * z3.RealVal(str(none))
            elif assigned_false:
                # some heads excluded, the group still open: the cube's mass over the remaining options
                rest = [p for i, p in enumerate(ps) if i not in assigned_false] + [none]
                cube = cube * z3.RealVal(str(sum(rest)))
                best_rest = best_rest * z3.RealVal(str(max(rest) / sum(rest))) if sum(rest) > 0 else best_rest
            else:
                best_rest = best_rest * z3.RealVal(str(max(ps + [none])))
        pq = Fraction(prob).limit_denominator(10 ** 12)
        lo = z3.RealVal(str(pq * (1 - Fraction(tau)) - Fraction(1, 10 ** 12)))
        hi = z3.RealVal(str(pq * (1 + Fraction(tau)) + Fraction(1, 10 ** 12)))
        s.push()
        s.add(z3.Or(cube > hi, cube < lo))
        r2 = chk()
        s.pop()
        if r2 == "sat":
            st.ob("refuted", key=okey + ":prob")
            violation("probability", "reported probability %s is not the probability of the returned assignment %s (%s)" % (
                prob, sorted(map(str, facts)), z3.simplify(cube)))
        else:
            st.ob("proved" if r2 == "unsat" else "inconclusive", key=okey + ":prob")
        W_ret = cube * best_rest
        # (iii) optimality: no world consistent with the evidence is more probable (beyond the tolerance)
        s.push()
        s.add(phi_e)
        s.add(W > W_ret * z3.RealVal(str(1 + Fraction(tau))) + z3.RealVal(str(Fraction(1, 10 ** 12))))
        r3 = chk()
        if r3 == "sat":
            m = s.model()
            better = sorted(n for n, v in atom_var.items() if z3.is_true(m.eval(v, model_completion=True)))
            st.ob("refuted", key=okey + ":optimal")
            violation("not-optimal", "returned %s (p=%s) but the world with true choices %s satisfies the evidence and is more probable (%s)"
                      % (sorted(map(str, facts)), prob, better, m.eval(W)))
        else:
            st.ob("proved" if r3 == "unsat" else "inconclusive", key=okey + ":optimal")
        s.pop()
    return st


def main(tier, seed):
    run = Run("C20", tier, seed, "translation_validation",
              "each program (probabilistic facts, optional AD, acyclic rules with negation, evidence; rational probabilities "
              "k/20) is solved by the real mpe_maxsat and mpe_semiring; z3 decides over ALL worlds of the reference semantics: "
              "the returned assignment is a legal world satisfying the evidence, the reported probability is that world's "
              "probability (within the MaxSAT quantisation tolerance), no consistent world is more probable, and 'unsatisfiable' "
              "is reported iff no world satisfies the evidence")
    run.functions = FUNCS
    run.assumptions = ["probabilities are concrete rationals (maxsatz needs numbers); all worlds are covered by the solver",
                       "queries on every probabilistic atom so that the output is a complete assignment",
                       "tolerance: MaxSAT mode 2e-3 relative (weights are scaled and truncated), semiring mode 1e-9",
                       "reference vlib/refsem.py"]
    n = 150 if tier == "quick" else 4000
    items = [("mpe/%d/%d" % (seed, i), "c20/%s/%s" % (seed, i)) for i in range(n)]
    items += [("mpe-certain/%d/%d" % (seed, i), "c20c/%s/%s" % (seed, i)) for i in range(n // 2)]
    run.bounds = {"programs": len(items), "max_choices": 8}
    for st in pmap(work, items, item_timeout=120):
        run.merge(st)
    return run.finish()


def replay(obj):
    st = work(("replay", obj["seed"]))
    return any(v["replay"]["mode"] == obj["mode"] for v in st["violations"])

"""C17 The parser is total and printing round-trips (E4: CrossHair over token / operator selectors)."""
import random

from vlib import xh
from vlib.common import Run, Stats

FUNCS = ["problog.parser.PrologParser.{_tokenize,_extract_statements,collapse,label_tokens,fold,_build_operator_free} (through PrologString)",
         "problog.parser tokenizer actions _token_*", "problog.program.PrologFactory / ExtendedPrologFactory.build_*",
         "problog.logic.Term.__repr__ / Clause / AnnotatedDisjunction / And / Or / Not printing"]

TOKENS = ["a", "X", "1", "0.5", "(", ")", "[", "]", ",", ".", ":-", "::", ";", "\\\\+", "-", "+", "<", "=", "|", "'a'", '"s"', "_", " ", "is",
          "*", "/", "{", "}", "%", "/*", "*/", "'", '"', "0'", "\\\\", ":", "<-", "e", "1e", "0x", "\\n", "->", ">", "@", "#", "?", "!", "&", "~",
          "^", "$"]
BIN = ["->", "=", "\\\\=", "==", "\\\\==", "@<", "@>", "@=<", "@>=", "=..", "is", "=:=", "=\\\\=", "<", ">", "=<", ">=", "+", "-", "/\\\\", "\\\\/", "xor",
       "*", "/", "//", "rem", "mod", "<<", ">>", "**", "^", ":", ";", ","]
UN = ["-", "+", "\\\\+", "\\\\"]
LEAF = ["a", "X", "1", "-1", "0.5", '"s"', "f(a)", "[a]", "'A b'", "- 1", "[]", "f(-1)", "1.0e10", "a1_B", "_", "[a|T]", "f(a,b)", "{a}",
        "'it''s'", "0x1F", "f(X,_,X)", "[[a]|[b]]", "''", '""', "'\\\\n'"]
HEADS = ["a", "0.3::a", "0.3::a; 0.4::b", "P::a", "0.3::f(X)", "t(_)::a", "t(0.5)::a; t(_)::b", "0.3::\\\\+a", "?::d", "utility(a,3)", "1/2::a",
         "0.3::a; 0.4::b; 0.3::c", "f(X,Y)", "query(a)", "evidence(a,false)", "evidence(\\\\+a)"]
BODIES = ["", " :- b", " :- b, \\\\+c", " :- (b;c), d", " :- \\\\+(b,c)", " :- b ; c", " :- X > 1, Y is X*2", " :- true", " :- \\\\+ \\\\+ b", " :- not b",
          " :- findall(X, q(X), L)", " :- (b -> c ; d)", " :- call(b)", " :- b, (c ; d)", " :- forall(a,b)", ' :- X = [H|T], Y = "s"']


def tree(name, items, arg="j"):
    """source of a selector function: binary decision tree over the index (log2 n decisions per call)"""
    lines = ["def %s(%s):" % (name, arg)]

    def rec(lo, hi, ind):
        if hi - lo == 1:
            lines.append("%sreturn %s" % (ind, '"%s"' % items[lo].replace('"', '\\"')))
            return
        mid = (lo + hi) // 2
        lines.append("%sif %s < %d:" % (ind, arg, mid))
        rec(lo, mid, ind + "    ")
        rec(mid, hi, ind)
    rec(0, len(items), "    ")
    return "\n".join(lines) + "\n"


PREAMBLE = '''
from problog.program import PrologString
from problog.errors import ProbLogError
try:
    from crosshair.tracers import NoTracing
except ImportError:       # concrete replay outside CrossHair
    import contextlib
    NoTracing = contextlib.nullcontext

''' + tree("TOK", TOKENS) + "\n\n" + tree("OP2", BIN) + "\n\n" + tree("OP1", UN) + "\n\n" + tree("LF", LEAF) + "\n\n" + tree("HD", HEADS) + \
    "\n\n" + tree("BD", BODIES) + '''

def total_ok(s):
    """'' unless parsing raises something that is not a ProbLog error"""
    # s is concrete on every path (the selectors are decided): the real parser runs untraced, at native speed
    with NoTracing():
        try:
            list(PrologString(s))
        except ProbLogError:
            return ""
    return ""


CONTROL = (";", "->")


def bad_class(form, o1, o2, u, l1, l2):
    """class of inputs with a KNOWN round-trip defect ('' = none); decided from the selectors only"""
    if form in ("nestL", "nestR", "flat", "goalL") and (o1 in CONTROL or o2 in CONTROL):
        return "control-construct-inside-argument"
    if form == "nestLR" and (o1 in CONTROL or o2 in CONTROL or u in CONTROL):
        return "control-construct-inside-argument"
    if form == "nestLR" and o2 == "^" and o1 in ("*", "/", "//", "rem", "mod", "<<", ">>"):
        return "power-as-left-operand-of-multiplicative-operator"
    if form in ("un-of-bin", "bin", "bin-of-unL", "bin-of-unR") and o1 in CONTROL:
        return "control-construct-inside-argument"
    if form == "bin" and o1 in ("<", ":") and l2 in ("-1", "- 1"):
        return "operator-glued-to-following-sign"
    if form == "bin-of-unR" and ((o1 in ("<", ":") and u == "-") or (o1 == "/" and u == "\\\\")):
        return "operator-glued-to-following-sign"
    if form == "bin-of-unL" and u in ("\\\\+", "\\\\"):
        return "prefix-operator-term-as-left-operand"
    if form == "un-leaf" and u in ("-", "+", "\\\\") and l1 in ("[a]", "[]", "[a|T]", "[[a]|[b]]"):
        return "prefix-operator-applied-to-list"
    if form == "un-un" and u == "\\\\":
        return "backslash-before-prefix-operator"
    if form == "un-of-bin":
        return "prefix-operator-applied-to-operator-expression"
    if form in ("nestL", "goalL") and o2 == "^" and o1 in ("*", "/", "//", "rem", "mod", "<<", ">>"):
        return "power-as-left-operand-of-multiplicative-operator"
    if form == "goalL" and o1 == "," and o2 == ",":
        return "left-nested-conjunction-flattened"
    return ""


def text_of(form, o1, o2, u, u2, l1, l2):
    if form == "leaf":
        return "p :- X = %s." % l1
    if form == "un-leaf":
        return "p :- X = %s %s." % (u, l1)
    if form == "un-paren-leaf":
        return "p :- X = %s(%s)." % (u, l1)
    if form == "bin":
        return "p :- X = (%s %s %s)." % (l1, o1, l2)
    if form == "nestL":
        return "p :- X = ((a %s b) %s c)." % (o2, o1)
    if form == "nestR":
        return "p :- X = (a %s (b %s c))." % (o1, o2)
    if form == "flat":
        return "p :- X = (a %s b %s c)." % (o1, o2)
    if form == "goalL":
        return "p :- (a %s b) %s c." % (o2, o1)
    if form == "nestLR":
        # both operands are operator terms; the third operator travels in the u slot
        return "p :- X = ((a %s b) %s (c %s d))." % (o2, o1, u)
    if form == "un-of-bin":
        return "p :- X = (%s (a %s b))." % (u, o1)
    if form == "bin-of-unL":
        return "p :- X = ((%s a) %s b)." % (u, o1)
    if form == "bin-of-unR":
        return "p :- X = (a %s %s b)." % (o1, u)
    if form == "un-un":
        return "p :- X = %s %s a." % (u, u2)
    return form


def roundtrip(s):
    with NoTracing():
        return _roundtrip(s)


def _roundtrip(s):
    """'' if s is not accepted, or if printing its clauses and parsing the text again gives equal clauses; else a description"""
    try:
        c1 = list(PrologString(s))
    except ProbLogError:
        return ""
    out = chr(10).join(str(c) + "." for c in c1)
    try:
        c2 = list(PrologString(out))
    except ProbLogError as e:
        return "printed text is rejected: " + s + " => " + out
    if c1 != c2:
        return "printed text parses to a different clause: " + s + " => " + out
    return ""


def rt(form, o1, o2, u, u2, l1, l2, mode):
    cls = bad_class(form, o1, o2, u, l1, l2)
    if mode == "clean" and cls:
        return ""
    if mode != "clean" and cls != mode:
        return ""
    return roundtrip(text_of(form, o1, o2, u, u2, l1, l2))
'''

CLASSES = ["control-construct-inside-argument", "operator-glued-to-following-sign", "prefix-operator-term-as-left-operand",
           "prefix-operator-applied-to-list", "backslash-before-prefix-operator", "prefix-operator-applied-to-operator-expression",
           "power-as-left-operand-of-multiplicative-operator", "left-nested-conjunction-flattened"]


def _h(name, params, ranges, body, meta):
    sig = ", ".join("%s: int" % p for p in params)
    pre = " and ".join("0 <= %s < %d" % (p, r) for p, r in zip(params, ranges)) or "True"
    src = 'def %s(%s) -> str:\n    """\n    pre: %s\n    post: _ == ""\n    """\n%s\n' % (
        name, sig, pre, "\n".join("    " + l for l in body.split("\n")))
    return xh.Harness(name, src, meta)


def lit(s):
    return '"%s"' % s.replace('"', '\\"')


def harnesses(tier, seed):
    rng = random.Random("c17/%s" % seed)
    hs = []
    nt = len(TOKENS)
    # A. totality: all token sequences of length 2 (quick) / 3 (thorough), with and without a final full stop
    for i in range(nt):
        if tier == "quick":
            hs.append(_h("h_tot_%d" % i, ["t1", "dot"], [nt, 2],
                         "s = %s + TOK(t1)\nif dot == 1:\n    s = s + '.'\nreturn total_ok(s)" % lit(TOKENS[i]),
                         {"part": "total", "first": TOKENS[i], "len": 2}))
        else:
            hs.append(_h("h_tot_%d" % i, ["t1", "t2", "dot"], [nt, nt, 2],
                         "s = %s + TOK(t1) + TOK(t2)\nif dot == 1:\n    s = s + '.'\nreturn total_ok(s)" % lit(TOKENS[i]),
                         {"part": "total", "first": TOKENS[i], "len": 3}))
    # quick tier, length 3: the first token from a seeded subset, the other two symbolic (5202 paths per condition);
    # length 4: three seeded tokens, the last symbolic
    if tier == "quick":
        for n, a in enumerate(rng.sample(TOKENS, 12)):
            hs.append(_h("h_tot3_%d" % n, ["t1", "t2", "dot"], [nt, nt, 2],
                         "s = %s + TOK(t1) + TOK(t2)\nif dot == 1:\n    s = s + '.'\nreturn total_ok(s)" % lit(a),
                         {"part": "total", "first": a, "len": 3}))
        for n in range(30):
            a, b, c = rng.choice(TOKENS), rng.choice(TOKENS), rng.choice(TOKENS)
            hs.append(_h("h_tot4_%d" % n, ["t3", "dot"], [nt, 2],
                         "s = %s + TOK(t3)\nif dot == 1:\n    s = s + '.'\nreturn total_ok(s)" % lit(a + b + c),
                         {"part": "total", "first": a + b + c, "len": 4}))
    else:
        for n in range(120):
            a, b = rng.choice(TOKENS), rng.choice(TOKENS)
            hs.append(_h("h_tot4_%d" % n, ["t2", "t3", "dot"], [nt, nt, 2],
                         "s = %s + TOK(t2) + TOK(t3)\nif dot == 1:\n    s = s + '.'\nreturn total_ok(s)" % lit(a + b),
                         {"part": "total", "first": a + b, "len": 4}))
    # B. round trip
    nb, nu, nl = len(BIN), len(UN), len(LEAF)
    modes = ["clean"] + CLASSES
    class_forms = {CLASSES[0]: ("bin", "nestL", "nestR", "flat", "goalL", "un-of-bin", "bin-of-unL", "bin-of-unR"),
                   CLASSES[1]: ("bin", "bin-of-unR"), CLASSES[2]: ("bin-of-unL",), CLASSES[3]: ("un-leaf",), CLASSES[4]: ("un-un",),
                   CLASSES[5]: ("un-of-bin",), CLASSES[6]: ("nestL", "goalL"), CLASSES[7]: ("goalL",)}
    all_hs = hs
    for mode in modes:
        tag = "c" if mode == "clean" else "k%d" % CLASSES.index(mode)
        m = lit(mode)
        hs = []
        # leaves and unary operators on leaves
        hs.append(_h("h_rt_leaf_%s" % tag, ["l1"], [nl], 'return rt("leaf", "", "", "", "", LF(l1), "", %s)' % m, {"part": "rt", "form": "leaf", "mode": mode}))
        for form in ("un-leaf", "un-paren-leaf"):
            hs.append(_h("h_rt_%s_%s" % (form.replace("-", ""), tag), ["u", "l1"], [nu, nl],
                         'return rt("%s", "", "", OP1(u), "", LF(l1), "", %s)' % (form, m), {"part": "rt", "form": form, "mode": mode}))
        hs.append(_h("h_rt_unun_%s" % tag, ["u", "u2"], [nu, nu], 'return rt("un-un", "", "", OP1(u), OP1(u2), "", "", %s)' % m,
                     {"part": "rt", "form": "un-un", "mode": mode}))
        # binary operator between two leaves: one condition per operator, leaves from the first 12
        ops = range(nb) if (tier == "thorough" or mode != "clean") else rng.sample(range(nb), 10)
        for o in ops:
            if mode != "clean" and not (BIN[o] in (";", "->", "<", ":")):
                continue
            hs.append(_h("h_rt_bin_%d_%s" % (o, tag), ["l1", "l2"], [12, 12],
                         'return rt("bin", %s, "", "", "", LF(l1), LF(l2), %s)' % (lit(BIN[o]), m), {"part": "rt", "form": "bin", "op": BIN[o], "mode": mode}))
        # nesting of two binary operators: one condition per outer operator, inner symbolic
        for form in ("nestL", "nestR", "flat", "goalL"):
            ops = range(nb) if tier == "thorough" else rng.sample(range(nb), 5)
            if mode != "clean":
                ops = ([BIN.index(";"), BIN.index("->")] if mode == CLASSES[0] else [BIN.index("*"), BIN.index("rem")] if mode == CLASSES[6]
                       else [BIN.index(",")] if mode == CLASSES[7] else [])
            for o in ops:
                hs.append(_h("h_rt_%s_%d_%s" % (form, o, tag), ["o2"], [nb],
                             'return rt("%s", %s, OP2(o2), "", "", "", "", %s)' % (form, lit(BIN[o]), m),
                             {"part": "rt", "form": form, "op": BIN[o], "mode": mode}))
        # both operands compound: one condition per outer operator, the two inner operators symbolic (1156 paths)
        if mode == "clean":
            ops = range(nb) if tier == "thorough" else sorted(set([BIN.index("^"), BIN.index(":"), BIN.index(","), BIN.index("-")] + rng.sample(range(nb), 5)))
            for o in ops:
                hs.append(_h("h_rt_nestLR_%d_%s" % (o, tag), ["o2", "o3"], [nb, nb],
                             'return rt("nestLR", %s, OP2(o2), OP2(o3), "", "", "", %s)' % (lit(BIN[o]), m),
                             {"part": "rt", "form": "nestLR", "op": BIN[o], "mode": mode}))
        for form in ("un-of-bin", "bin-of-unL", "bin-of-unR"):
            hs.append(_h("h_rt_%s_%s" % (form.replace("-", ""), tag), ["u", "o1"], [nu, nb],
                         'return rt("%s", OP2(o1), "", OP1(u), "", "", "", %s)' % (form, m), {"part": "rt", "form": form, "mode": mode}))
        all_hs += [h for h in hs if mode == "clean" or h.meta["form"] in class_forms[mode]]
    hs = all_hs
    # clause level: heads x bodies (no known class)
    for hd in range(len(HEADS)):
        hs.append(_h("h_rt_clause_%d" % hd, ["b"], [len(BODIES)], 'return roundtrip(%s + BD(b) + ".")' % lit(HEADS[hd]),
                     {"part": "rt", "form": "clause", "head": HEADS[hd], "mode": "clean"}))
    return hs


def main(tier, seed):
    run = Run("C17", tier, seed, "other",
              "the input text is assembled from SYMBOLIC selectors (token indices; operator, leaf, head and body indices) that a "
              "decision tree turns into concrete text on every path, so CrossHair (z3) enumerates and exhausts the selector space per "
              "condition: (A) every token sequence in the bound is either parsed or rejected with a ProbLogError; (B) for every text "
              "of the expression grammar (leaves, prefix operators, one or two binary operators of the full operator table in every "
              "nesting, clause heads x bodies) that the parser accepts, printing the clauses and parsing the text again yields equal "
              "clauses. Inputs of the eight known-defect classes are excluded from the 'clean' conditions by a predicate over the "
              "selectors and checked by their own conditions (reported as known findings)")
    run.functions = FUNCS
    run.assumptions = ["token alphabet of %d tokens; quick: all sequences of 2 tokens (+ optional final '.'), all sequences of 3 that start with one of 12 "
                       "seeded tokens, 30 seeded 3-token prefixes with a symbolic 4th token; thorough: all sequences of 3, and of 4 for 120 seeded "
                       "2-token prefixes" % len(TOKENS),
                       "the selectors are the only symbolic values: once they are decided the text is concrete and the real parser / printer run "
                       "untraced (crosshair.tracers.NoTracing) at native speed",
                       "round trip starts from TEXT (parse, print, parse): terms built directly with Term(...) carry no operator "
                       "information and print in functional notation that the parser does not accept for symbolic functors (recorded in DESIGN.md, not claimed)",
                       "CrossHair stops at the first counterexample of a condition: conditions are split per first token / outer operator / "
                       "known class so that one defect does not hide another class",
                       "characters outside the token alphabet, longer inputs, float printing precision: outside the claim"]
    hs = harnesses(tier, seed)
    timeout = 240 if tier == "quick" else 1200
    st = Stats()
    res, cpu = xh.run(hs, PREAMBLE, per_condition_timeout=timeout, per_module=4)
    byname = dict((h.name, h) for h in hs)
    for name, (verdict, detail) in sorted(res.items()):
        h = byname[name]
        meta = h.meta
        okey = "%s:%s" % (name, meta.get("first") or meta.get("form"))
        if verdict == "confirmed":
            st.ob("proved", key=okey)
            continue
        if verdict == "inconclusive":
            st.ob("inconclusive", key=okey, note="%s: %s" % (okey, detail[:60]))
            continue
        call = xh.parse_call(detail)
        kind, val = (None, None)
        if call:
            kind, val = xh.call_harness(PREAMBLE, h, call[1], call[2])
        if kind == "exc":
            from vlib.semcheck import call_site
            st.ob("refuted", key=okey)
            st.violation("total:%s@%s" % (type(val).__name__, call_site(val)), "parsing raised %s: %s (%s, selectors %s)" % (
                type(val).__name__, val, meta, call[1:]), {"harness": h.source, "name": h.name, "args": list(call[1]), "kwargs": call[2]})
        elif kind == "ok" and val:
            st.ob("refuted", key=okey)
            mode = meta.get("mode", "clean")
            key = "roundtrip:%s" % (mode if mode != "clean" else "%s:%s" % (meta.get("form"), val.split(" => ")[0][-40:]))
            st.violation(key, "%s" % val, {"harness": h.source, "name": h.name, "args": list(call[1]), "kwargs": call[2]})
        else:
            st.ob("inconclusive", key=okey, note="counterexample did not replay: %s" % detail[:100])
    st["samples"].append({"harness": hs[0].source})
    st["samples"].append({"harness": hs[-1].source})
    st["solver_time"] += cpu
    st["queries"] += len(hs)
    st["programs"] = len(hs)
    run.merge(st)
    run.bounds = {"crosshair_conditions": len(hs), "tokens": len(TOKENS), "binary_operators": len(BIN), "leaves": len(LEAF),
                  "per_condition_timeout_s": timeout}
    run.extra["rule"] = "one obligation per CrossHair condition (first token(s) / form x outer operator x class)"
    return run.finish()


def replay(obj):
    h = xh.Harness(obj["name"], obj["harness"])
    kind, val = xh.call_harness(PREAMBLE, h, obj["args"], obj.get("kwargs") or {})
    return kind == "exc" or bool(val)

"""C29 Extending a prepared database is equivalent to preparing the union (E1, run-vs-run)."""
import random
from fractions import Fraction

from problog import get_evaluatable
from problog.engine import DefaultEngine
from problog.evaluator import SemiringProbability
from problog.logic import Term
from problog.program import PrologString

from vlib import gen, diffcheck
from vlib.common import Run, Stats, pmap

FUNCS = ["problog.clausedb.ClauseDB.{extend,_add_head (node redirect),add_clause,add_fact,get_node,find}",
         "problog.clausedb.ClauseIndex (copy of parent definitions)",
         "problog.engine.ClauseDBEngine.{prepare,ground_all,query}", "evaluation pipeline as in C01"]


def split(text, idxs):
    lines = [l for l in text.split("\n") if l.strip()]
    base = [l for i, l in enumerate(lines) if i not in idxs]
    add = [l for i, l in enumerate(lines) if i in idxs]
    return "\n".join(base) + "\n", "\n".join(add) + "\n", add


def _evaluate(eng, db, sr):
    lf = eng.ground_all(db)
    f = get_evaluatable("ddnnf").create_from(lf)
    return f.evaluate(semiring=sr if sr is not None else SemiringProbability())


def _try_ground(eng, db):
    """Interleaved grounding of a partial program.  The partial program may legitimately be
    invalid (unknown clause); an engine that raised is not reusable (it then reports
    InvalidEngineState - outside this property), so the call is first tried on a scratch engine
    and only repeated on the shared engine when it succeeds."""
    try:
        DefaultEngine().ground_all(db)
    except Exception:
        return
    eng.ground_all(db)


def make_cfg(desc):
    kind = desc["kind"]
    idxs = set(desc.get("split", []))

    def cfg(text, sr):
        base, add, addl = split(text, idxs)
        eng = DefaultEngine()
        if kind == "union":
            return _evaluate(eng, eng.prepare(PrologString(base + add)), sr)
        if kind == "base":
            return _evaluate(eng, eng.prepare(PrologString(base)), sr)
        db = eng.prepare(PrologString(base))
        rng = random.Random(desc.get("seed"))
        if kind == "extend":
            child = db.extend()
            for li, line in enumerate(addl):
                if desc.get("levels") == 2 and li == (len(addl) + 1) // 2 and li > 0:
                    child = child.extend()                       # the remaining statements go into an extension of the extension
                for stmt in PrologString(line + "\n"):
                    child += stmt
                r = rng.random()
                if desc.get("ground_each"):
                    _try_ground(eng, child)                      # every intermediate child is grounded (its index serves calls)
                    continue
                if r < 0.3:
                    eng.query(child, Term("query", None))      # interleaved query on the child
                elif r < 0.6:
                    _try_ground(eng, db)                         # interleaved grounding of the parent
                elif r < 0.8:
                    _try_ground(eng, child)                      # grounding of the partial child
            if desc.get("chain"):
                child = child.extend()                           # an (empty) second-level extension
            return _evaluate(eng, child, sr)
        if kind == "parent_after_extend":
            child = db.extend()
            for line in addl:
                for stmt in PrologString(line + "\n"):
                    child += stmt
                if rng.random() < 0.5:
                    _try_ground(eng, child)
            return _evaluate(eng, db, sr)
        raise ValueError(kind)
    return cfg


def work(item):
    name, prog, splits = item
    text = gen.program_text(prog)
    groups = gen.ad_groups_of(prog)
    st = Stats()
    for k, idxs in enumerate(splits):
        a = {"kind": "union", "split": idxs}
        b = {"kind": "extend", "split": idxs, "seed": "%s/%d" % (name, k), "chain": k % 2 == 1}
        if name.startswith("extidx/"):
            b["ground_each"] = True
        if k % 3 == 2 and not name.startswith("extidx/"):
            b["levels"] = 2
        diffcheck.diff_check(text, make_cfg(a), make_cfg(b), a, b, groups=groups, name=name, st=st)
        if name.startswith("extidx/"):
            # the same history with the added statements split over an extension and an extension of that extension
            b3 = dict(b)
            b3["levels"] = 2
            diffcheck.diff_check(text, make_cfg(a), make_cfg(b3), a, b3, groups=groups, name=name, st=st)
        a2 = {"kind": "base", "split": idxs}
        b2 = {"kind": "parent_after_extend", "split": idxs, "seed": "%s/%d" % (name, k)}
        diffcheck.diff_check(text, make_cfg(a2), make_cfg(b2), a2, b2, groups=groups, name=name, st=st)
    return st


def main(tier, seed):
    run = Run("C29", tier, seed, "translation_validation",
              "union-from-scratch vs db.extend()+additions (child), and base vs parent-after-extension "
              "(isolation); both sides evaluated by the real pipeline with symbolic weights, z3 decides identity")
    run.functions = FUNCS
    run.assumptions = ["histories: <= 4 added statements (facts, rules, ADs; new and existing predicates), "
                       "seeded splits and interleavings; one or two levels of extension (the added statements split over child and grandchild); bounded",
                       "a base program whose queries need an added predicate may raise UnknownClause on both sides"]
    ns = 3 if tier == "quick" else 20
    progs = [(n, p) for n, p in gen.corpus()]
    n = 40 if tier == "quick" else 500
    for i in range(n):
        progs.append(("gen/%d/%d" % (seed, i), gen.generate(seed, 15000 + i, max_choices=7)))
    items = []
    for name, prog in progs:
        rng = random.Random("%s/%s" % (seed, name))
        cand = [i for i, s in enumerate(prog) if s[0] in ("fact", "rule", "ad")]
        splits = []
        for _ in range(ns):
            k = rng.randint(1, min(4, len(cand)))
            splits.append(sorted(rng.sample(cand, k)))
        items.append((name, prog, splits))
    # clause-index shapes: constant-headed and variable-headed clauses of one predicate added one by one to the
    # extension, with a grounding of the child (serving a ground call) between the additions
    from vlib.gen import A, P
    for i in range(20 if tier == "quick" else 300):
        r = random.Random("c29x/%s/%s" % (seed, i))
        prog = [("ad", [("p1", A("s", "1"))], []), ("ad", [("p2", A("s", "2"))], []), ("ad", [("p3", A("t", "1"))], []),
                ("ad", [("p4", A("t", "2"))], [])]
        cls = [("rule", A("p", "1"), [P(A("t", "1"))]), ("rule", A("p", "X"), [P(A("s", "X"))])]
        if r.random() < 0.5:
            cls.append(("rule", A("p", "X"), [P(A("t", "X")), P(A("s", "2"))]))
        if r.random() < 0.4:
            cls.append(("rule", A("p", "2"), [P(A("t", "2"))]))
        r.shuffle(cls)
        base_first = r.random() < 0.5
        prog += cls
        prog.append(("rule", A("q"), [P(A("p", r.choice(["1", "2"])))]))
        prog += [("query", A("q")), ("query", A("p", "1"))]
        idx = [j for j, st_ in enumerate(prog) if st_ in cls]
        splits = [idx[1:] if base_first else idx, idx[-1:], idx[:1] + idx[-1:]]
        items.append(("extidx/%d/%d" % (seed, i), prog, splits))
    run.bounds = {"skeletons": len(items), "splits_per_skeleton": ns, "max_added_statements": 4}
    for st in pmap(work, items, item_timeout=120 if tier == "quick" else 900):
        run.merge(st)
    return run.finish()


def replay(obj):
    vals = dict((k, Fraction(v)) for k, v in obj["values"].items())
    rep, info = diffcheck.replay_diff(obj["program"], make_cfg(obj["A"]), make_cfg(obj["B"]), vals,
                                      ignore_extra_zero=True)
    return rep

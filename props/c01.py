"""C01 Exact inference computes the distribution semantics (E1 + E2)."""
import random

from vlib import gen, semcheck
from vlib.common import Run, Stats, pmap

FUNCS = ["problog.engine.DefaultEngine.ground_all (concrete on structure)",
         "problog.formula.BaseFormula.extract_weights", "problog.constraint.ConstraintAD.update_weights",
         "problog.evaluator.SemiringProbability.{value,plus,times,negate,normalize,is_zero,is_one,in_domain}",
         "problog.evaluator.Semiring.{ad_complement,ad_negate,to_evidence,true,false}",
         "problog.evaluator.Evaluatable.{get_evaluator,evaluate}",
         "problog.ddnnf_formula.SimpleDDNNFEvaluator.{_initialize,evaluate,set_evidence,_set_value,_get_weight,_calculate_weight,get_root_weight}",
         "problog.cycles.break_cycles", "problog.cnf_formula.clarks_completion", "problog.ddnnf_formula._compile/_load_nnf"]

ASSUME = ["floats modelled as reals; tolerance constants (1e-12, 1e-9) read as infinitesimals",
          "reference semantics vlib/refsem.py (own grounder + SCC-unrolled least model), tied to its own "
          "truth-table enumeration by a z3 equivalence query per program",
          "program skeletons are enumerated/generated, not symbolic; per skeleton all worlds and all "
          "parameter values in the open region are solver-decided",
          "dsharp binary trusted only through the validated outputs of these runs"]


def boundary_variants(name, prog):
    """Instantiate one parameter to the exact constants 0.0 / 1.0 (constant-folding paths)."""
    out = []
    params = []
    for s in prog:
        if s[0] == "ad":
            for p, _ in s[1]:
                if p[:1] == "p" and p[1:].isdigit():
                    params.append((p, len(s[1])))
        elif s[0] == "fact":
            for a in s[1][1]:
                if a[:1] == "p" and a[1:].isdigit():
                    params.append((a, 2))  # flexible: may belong to an AD -> only 0
    for p, k in params:
        for c in (["0.0", "1.0"] if k == 1 else ["0.0"]):
            def sub(x):
                return c if x == p else x
            new = []
            for s in prog:
                if s[0] == "ad":
                    new.append(("ad", [(sub(pp), a) for pp, a in s[1]], s[2]))
                elif s[0] == "fact":
                    new.append(("fact", (s[1][0], tuple(sub(a) for a in s[1][1]))))
                else:
                    new.append(s)
            out.append(("%s[%s:=%s]" % (name, p, c), new))
    return out


def work(item):
    name, prog, kw = item
    return semcheck.check_semantics(prog, name, **kw)


def skeletons(tier, seed):
    items = []
    corp = gen.corpus()
    for name, prog in corp:
        items.append((name, prog, {}))
    for name, prog in corp:
        for n2, p2 in boundary_variants(name, prog)[: (3 if tier == "quick" else 100)]:
            items.append((n2, p2, {}))
    n = 80 if tier == "quick" else 1500
    for i in range(n):
        mc = 6 if i % 3 else 9
        prog = gen.generate(seed, i, max_choices=mc)
        items.append(("gen/%d/%d" % (seed, i), prog, {}))
    import random as _r
    for i in range(150 if tier == "quick" else 2500):
        items.append(("cyc/%d/%d" % (seed, i), gen.cyclic_prop_program(_r.Random("cyc/%s/%s" % (seed, i))), {}))
    # numeric variants: every parameter collapsed to one constant (real route only)
    base = [it for it in items if "[" not in it[0]]
    for name, prog, kw in base[:: (4 if tier == "quick" else 1)]:
        kw2 = dict(kw)
        kw2["bool_route"] = False
        items.append((name + "[collapsed]", gen.collapse_params(prog), kw2))
    # explicit disjunction / negated conjunction in clause bodies: the real program uses ';' and \\+( , ) inline, the
    # reference program the equivalent auxiliary predicates (the AST of the reference has conjunctive bodies only)
    from vlib.gen import A, P, N
    for i in range(40 if tier == "quick" else 600):
        r = _r.Random("c01or/%s/%s" % (seed, i))
        facts = [("ad", [("p1", A("a"))], []), ("ad", [("p2", A("b"))], []), ("ad", [("p3", A("f"))], []), ("ad", [("p4", A("g"))], [])]
        ref = list(facts) + [("fact", A("dom", "1")), ("fact", A("dom", "2"))]
        lines = [gen.stmt_str(x) for x in ref]
        e_cl = [("rule", A("e", "1"), [P(A("a"))])]
        if r.random() < 0.7:
            e_cl.append(("rule", A("e", "1"), [P(A("b"))]))
        if r.random() < 0.5:
            e_cl.append(("rule", A("e", "2"), [P(A("b")), N(A("a"))]))
        ref += e_cl
        lines += [gen.stmt_str(x) for x in e_cl]
        cyc = r.random() < 0.6
        d1, d2 = ("e(X)", "q(X)") if r.random() < 0.5 else ("q(X)", "e(X)")
        guard = r.choice(["", "", ", g"])
        # p(X) :- dom(X), (d1 ; d2) [, g].
        lines.append("p(X) :- dom(X), (%s ; %s)%s." % (d1, d2, guard))
        gl = [P(A("g"))] if guard else []
        ref.append(("rule", A("p", "X"), [P(A("dom", "X")), P(A("or1", "X"))] + gl))
        ref.append(("rule", A("or1", "X"), [P(A(d1[0], "X"))]))
        ref.append(("rule", A("or1", "X"), [P(A(d2[0], "X"))]))
        if cyc:
            lines.append("q(X) :- p(X).")
            ref.append(("rule", A("q", "X"), [P(A("p", "X"))]))
        lines.append("q(1) :- f.")
        ref.append(("rule", A("q", "1"), [P(A("f"))]))
        if r.random() < 0.5:
            # a negated conjunction: s :- g, \\+(a, f).
            lines.append("s :- g, \\+(a, f).")
            ref.append(("rule", A("s"), [P(A("g")), N(A("nc"))]))
            ref.append(("rule", A("nc"), [P(A("a")), P(A("f"))]))
            qs = [A("s")]
        else:
            qs = []
        qs += [A("e", "1"), A("p", "1"), A("q", "1"), A("p", "2")]
        r.shuffle(qs)
        qs = qs[: r.randint(2, 4)]
        if r.random() < 0.3:
            ev = (A("q", "1"), r.random() < 0.5)
            if ev[0] not in qs:
                ref.append(("evidence", ev[0], ev[1]))
                lines.append(gen.stmt_str(("evidence", ev[0], ev[1])))
        for q in qs:
            ref.append(("query", q))
            lines.append(gen.stmt_str(("query", q)))
        items.append(("bodyor/%d/%d" % (seed, i), ref, {"text": "\n".join(lines) + "\n"}))
    if tier == "thorough":
        for i in range(150):
            prog = gen.generate(seed, 100000 + i, max_choices=24)
            items.append(("big/%d/%d" % (seed, i), prog, {"real_limit": 4096}))
    return items


def main(tier, seed):
    run = Run("C01", tier, seed, "translation_validation",
              "each skeleton: real pipeline executed with symbolic weights; z3 decides identity with "
              "the reference for all worlds (Bool route) and all parameter values (NRA route)")
    run.functions = FUNCS
    run.assumptions = ASSUME
    items = skeletons(tier, seed)
    run.bounds = {"skeletons": len(items), "max_choices_real_route": "world count <= 2048 (4096 thorough/big)",
                  "bool_route_choices": "<= 24", "constants": "a,b,c", "arity": "0-2",
                  "z3_timeout_ms": 20000, "boundary_instantiations": "single parameter := 0.0 / 1.0"}
    for st in pmap(work, items):
        run.merge(st)
    return run.finish()


def replay(obj):
    return semcheck.replay_semantics(obj)["reproduced"]

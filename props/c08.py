"""C08 A query's answer does not depend on what else was grounded before it (E1, run-vs-run)."""
import itertools
import random
from fractions import Fraction

from problog import get_evaluatable
from problog.engine import DefaultEngine
from problog.evaluator import SemiringProbability
from problog.formula import LogicFormula
from problog.logic import Term
from problog.program import PrologString

from vlib import gen, diffcheck
from vlib.common import Run, Stats, pmap

FUNCS = ["problog.engine.ClauseDBEngine.{ground,ground_all,ground_queries,ground_evidence,query,prepare}",
         "problog.engine_stack.DefineCache (on the shared target formula)",
         "whole evaluation pipeline as in C01 (symbolic weights)"]


def _items(engine, db):
    queries = [q[0] for q in engine.query(db, Term("query", None))]
    evidence = engine.query(db, Term("evidence", None, None))
    evidence += engine.query(db, Term("evidence", None))
    return queries, evidence


def _evaluate(lf, sr):
    f = get_evaluatable("ddnnf").create_from(lf)
    return f.evaluate(semiring=sr if sr is not None else SemiringProbability())


def make_cfg(desc):
    kind = desc.get("kind", "single")

    def cfg(text, sr):
        if kind == "single":
            # every query grounded alone, fresh engine, fresh database, fresh target
            eng0 = DefaultEngine()
            db0 = eng0.prepare(PrologString(text))
            queries, _ = _items(eng0, db0)
            res = {}
            for q in queries:
                eng = DefaultEngine()
                db = eng.prepare(PrologString(text))
                lf = eng.ground_all(db, queries=[q])
                res.update(_evaluate(lf, sr))
            return res
        if kind == "all":
            eng = DefaultEngine()
            db = eng.prepare(PrologString(text))
            return _evaluate(eng.ground_all(db), sr)
        if kind == "reuse_db":
            # one prepared database reused for successive groundings (fresh targets)
            eng = DefaultEngine()
            db = eng.prepare(PrologString(text))
            queries, _ = _items(eng, db)
            rng = random.Random(desc.get("seed"))
            rng.shuffle(queries)
            res = {}
            for q in queries:
                if rng.random() < 0.5:
                    eng.query(db, Term("query", None))
                lf = eng.ground_all(db, queries=[q])
                res.update(_evaluate(lf, sr))
            return res
        if kind == "history":
            # queries and evidence grounded one by one into ONE target, in a given order
            eng = DefaultEngine()
            db = eng.prepare(PrologString(text))
            queries, evidence = _items(eng, db)
            target = LogicFormula()
            steps = [("q", q) for q in queries] + [("e", e) for e in evidence]
            rng = random.Random(desc.get("seed"))
            rng.shuffle(steps)
            if desc.get("repeat"):
                steps = steps + steps[: len(steps) // 2 + 1]
            for k, it in steps:
                if k == "q":
                    target = eng.ground(db, it, target, label=target.LABEL_QUERY)
                else:
                    eng.ground_evidence(db, target, [it])
            return _evaluate(target, sr)
        raise ValueError(kind)
    return cfg


def work(item):
    name, prog, descs = item
    text = gen.program_text(prog)
    groups = gen.ad_groups_of(prog)
    st = Stats()
    for d in descs:
        diffcheck.diff_check(text, make_cfg({"kind": "single"}), make_cfg(d), {"kind": "single"}, d,
                             groups=groups, name=name, st=st)
    return st


def main(tier, seed):
    run = Run("C08", tier, seed, "translation_validation",
              "fresh single-query groundings vs call histories sharing one target formula / one prepared "
              "database; both evaluated through the real pipeline with symbolic weights; z3 decides identity")
    run.functions = FUNCS
    run.assumptions = ["histories: all-at-once, seeded orders of ground()/ground_evidence() into one target "
                       "(with repeated calls), seeded successive ground_all on one prepared db; bounded",
                       "an instance reported by only one run is accepted iff its value is identically 0"]
    nh = 3 if tier == "quick" else 24
    progs = [(n, p) for n, p in gen.corpus()]
    n = 40 if tier == "quick" else 500
    for i in range(n):
        progs.append(("gen/%d/%d" % (seed, i), gen.generate(seed, 13000 + i, max_choices=7)))
    items = []
    for name, prog in progs:
        descs = [{"kind": "all"}]
        for k in range(nh):
            descs.append({"kind": "history", "seed": "%s/%s/%d" % (seed, name, k), "repeat": k % 2 == 1})
        descs.append({"kind": "reuse_db", "seed": "%s/%s" % (seed, name)})
        items.append((name, prog, descs))
    run.bounds = {"skeletons": len(items), "histories_per_skeleton": nh + 2}
    for st in pmap(work, items, item_timeout=120 if tier == "quick" else 900):
        run.merge(st)
    return run.finish()


def replay(obj):
    vals = dict((k, Fraction(v)) for k, v in obj["values"].items())
    rep, info = diffcheck.replay_diff(obj["program"], make_cfg(obj["A"]), make_cfg(obj["B"]), vals,
                                      ignore_extra_zero=True)
    return rep

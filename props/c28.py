"""C28 Python and Prolog values convert losslessly (E4: CrossHair on py2pl/pl2py and the export wrappers)."""
import itertools

from vlib import xh
from vlib.common import Run, Stats

FUNCS = ["problog.pypl.py2pl", "problog.pypl.pl2py", "problog.extern.problog_export._convert_input/_convert_output",
         "problog.extern.problog_export.__call__ wrapper (check_mode, bound-output unification; multi-output functions)",
         "problog.logic.list2term / term2list", "problog.logic.Constant.__init__ (FLOAT_PRECISION rounding)"]

PREAMBLE = '''
from problog.pypl import py2pl, pl2py
from problog.extern import problog_export
from problog.logic import Term, Constant, term2list, list2term


def roundtrip(v):
    return pl2py(py2pl(v))


def same(a, b):
    """equal values of equal types, recursively (1 == 1.0 == True must not pass)"""
    for t in (bool, int, float, str, list, tuple):
        if isinstance(a, t) != isinstance(b, t):
            return False
    if isinstance(a, (list, tuple)):
        return len(a) == len(b) and all(same(x, y) for x, y in zip(a, b))
    return a == b


_CAP = {}
problog_export.add_function = staticmethod(lambda name, i, o, f, module_name=None: _CAP.__setitem__(name, f))


@problog_export("+int", "+int", "-int", "-int")
def sum_prod(a, b):
    return a + b, a * b


@problog_export("+int", "-int", "-int", "-int")
def three(a):
    return a, a + 1, 2 * a


def call_ok(name, ins, outs, bound):
    """the wrapper of an exported function with several outputs: a call succeeds exactly when every BOUND output argument
    equals the Python result, and then returns the inputs followed by the Python results"""
    import types
    if name == "sum_prod":
        py = (ins[0] + ins[1], ins[0] * ins[1])
    else:
        py = (ins[0], ins[0] + 1, 2 * ins[0])
    args = [Constant(x) for x in ins]
    expect_ok = True
    for k, (o, b) in enumerate(zip(outs, bound)):
        if b:
            args.append(Constant(o))
            if o != py[k]:
                expect_ok = False
        else:
            args.append(-(k + 1))
    res = _CAP[name](*args)
    if not expect_ok:
        return res == []
    if len(res) != 1:
        return False
    return [int(x) for x in res[0]] == list(ins) + list(py)


def export_roundtrip(v, t):
    """value returned by an exported Python function (-t) and read back as an input (+t)"""
    e = problog_export("+" + t, "-" + t)
    out = e._convert_outputs([v])[0]
    return e._convert_inputs([out])[0]
'''

# value templates: I = symbolic int, S = symbolic str (len <= 3), nested lists / tuples of length 0, 2, 3
TEMPLATES = [
    "I", "S", "[]", "()", "[I]", "[S]", "[I, S]", "(I, S)", "[S, S, I]", "(S, I, S)",
    "[[I], S]", "[[], I]", "[I, []]", "[(), S]", "[(I, S), S]", "[S, (I, S)]", "([I], S)", "(I, [S])", "(I, [])",
    "([], ())", "[[I, S], [S]]", "[(I, S), (S, I)]", "((I, S), I)", "([I, S], [S, I])", "[[[I]], S]", "(I, [S, (I, S)])",
    # a tuple in the LAST position of a tuple (right-nested comma terms)
    "(I, (S, I))", "(S, (I, (S, I)))", "[(I, (S, I))]",
]


def instantiate(tpl):
    names, out, k = [], "", 0
    for ch in tpl:
        if ch in "IS":
            k += 1
            n = ("i%d" if ch == "I" else "s%d") % k
            names.append((n, "int" if ch == "I" else "str"))
            out += n
        else:
            out += ch
    return out, names


def make(idx, kind, tpl):
    expr, names = instantiate(tpl)
    sig = ", ".join("%s: %s" % (n, t) for n, t in names)
    pre = " and ".join(["len(%s) <= 3" % n for n, t in names if t == "str"] +
                       ["-1000000 <= %s <= 1000000" % n for n, t in names if t == "int"]) or "True"
    name = "h_%s_%d" % (kind, idx)
    if kind == "rt":
        body = "    return same(roundtrip(%s), %s)" % (expr, expr)
    elif kind == "exp_int":
        body = "    return same(export_roundtrip(%s, 'int'), %s)" % (expr, expr)
    elif kind == "exp_str":
        body = "    return same(export_roundtrip(%s, 'str'), %s)" % (expr, expr)
    elif kind == "exp_list":
        body = "    return same(export_roundtrip(%s, 'list'), %s)" % (expr, expr)
    src = 'def %s(%s) -> bool:\n    """\n    pre: %s\n    post: _\n    """\n%s\n' % (name, sig, pre, body)
    return xh.Harness(name, src, {"kind": kind, "template": tpl})


def classify(kind, tpl, args):
    """Key of a reproduced counterexample (narrow input classes)."""
    flat = [a for a in args]
    if kind in ("rt", "exp_list") and any(isinstance(a, str) and ("'" in a or '"' in a) for a in flat):
        return "string-with-quote"
    if kind == "exp_str" and any(isinstance(a, str) and (a.startswith('"') or a.endswith('"')) for a in flat):
        return "export-str-leading-or-trailing-double-quote"
    if kind in ("rt", "exp_list") and _tuple_last_tuple(eval(tpl.replace("I", "0").replace("S", "''"))):
        return "tuple-as-last-element-of-tuple"
    return "%s:%s" % (kind, tpl)


def _tuple_last_tuple(v):
    if isinstance(v, tuple) and v and isinstance(v[-1], tuple) and len(v) > 1:
        return True
    return isinstance(v, (list, tuple)) and any(_tuple_last_tuple(x) for x in v)


FLOAT_WITNESSES = [0.5, 1e-3, 123456.789, 1e-20, 0.1234567890123456789, 1.0000000000000002, 2.5e-16, 1e300]


def main(tier, seed):
    run = Run("C28", tier, seed, "other",
              "one CrossHair condition per value shape: leaves are symbolic ints and symbolic strings of length <= 3 "
              "(full alphabet incl. quotes); postcondition pl2py(py2pl(v)) == v with equal types, and the export wrappers' "
              "output->input round trip. Floats are checked on witnesses only (Constant rounds to 15 decimals).")
    run.functions = FUNCS
    hs = []
    for i, t in enumerate(TEMPLATES):
        hs.append(make(i, "rt", t))
    hs.append(make(100, "exp_int", "I"))
    hs.append(make(101, "exp_str", "S"))
    for j, t in enumerate(["[I]", "[S]", "[I, S]", "[S, [I]]", "[]", "[(I, S)]"]):
        hs.append(make(110 + j, "exp_list", t))
    # exported functions with several outputs, some of them bound in the call (binding pattern enumerated, values symbolic)
    import itertools as _it
    k = 200
    for name, nin, nout in (("sum_prod", 2, 2), ("three", 1, 3)):
        for bound in _it.product([False, True], repeat=nout):
            k += 1
            ins = ["a%d" % i for i in range(nin)]
            outs = ["o%d" % i for i in range(nout)]
            sig = ", ".join("%s: int" % n for n in ins + outs)
            pre = " and ".join("-50 <= %s <= 50" % n for n in ins + outs)
            body = "    return call_ok(%r, [%s], [%s], %r)" % (name, ", ".join(ins), ", ".join(outs), list(bound))
            hname = "h_call_%d" % k
            src = 'def %s(%s) -> bool:\n    """\n    pre: %s\n    post: _\n    """\n%s\n' % (hname, sig, pre, body)
            hs.append(xh.Harness(hname, src, {"kind": "exp_call", "template": "%s bound=%s" % (name, list(bound))}))
    timeout = 25 if tier == "quick" else 240
    run.assumptions = ["value shapes enumerated (nesting depth <= 3, lengths 0-3); strings of length <= 3, ints |v| <= 10^6",
                       "floats: witnesses only (CrossHair models floats as reals; Python's decimal rounding in Constant is not encoded)",
                       "'Not confirmed' is inconclusive"]
    st = Stats()
    res, cpu = xh.run(hs, PREAMBLE, per_condition_timeout=timeout)
    byname = dict((h.name, h) for h in hs)
    for name, (verdict, detail) in sorted(res.items()):
        h = byname[name]
        okey = "%s:%s" % (h.meta["kind"], h.meta["template"])
        if verdict == "confirmed":
            st.ob("proved", key=okey)
        elif verdict == "inconclusive":
            st.ob("inconclusive", key=okey, note="%s: %s" % (okey, detail[:80]))
        else:
            call = xh.parse_call(detail)
            ok = False
            if call:
                kind, val = xh.call_harness(PREAMBLE, h, call[1], call[2])
                ok = (kind == "exc") or (val is False)
            if ok:
                st.ob("refuted", key=okey)
                args = list(call[1]) + list(call[2].values())
                st.violation(classify(h.meta["kind"], h.meta["template"], args),
                             "%s of %s with %s: %s" % (h.meta["kind"], h.meta["template"], args,
                                                       "raised %r" % val if kind == "exc" else "value changed"),
                             {"kind": "xh", "harness": h.source, "name": h.name, "args": list(call[1]), "kwargs": call[2]})
            else:
                st.ob("inconclusive", key=okey, note="counterexample did not replay: %s" % detail[:100])
        if len(st["samples"]) < 3:
            st["samples"].append({"harness": h.source})
    # floats: concrete witnesses
    ns = {}
    exec(PREAMBLE, ns)
    for f in FLOAT_WITNESSES:
        got = ns["roundtrip"](f)
        okey = "float:%r" % f
        if ns["same"](got, f):
            st.ob("proved", key=okey)
        else:
            st.ob("refuted", key=okey)
            st.violation("float-more-than-15-decimals", "pl2py(py2pl(%r)) = %r" % (f, got), {"kind": "float", "value": f})
    st["solver_time"] += cpu
    st["queries"] += len(hs)
    st["programs"] = len(hs)
    run.merge(st)
    run.bounds = {"crosshair_conditions": len(hs), "per_condition_timeout_s": timeout, "string_length": 3,
                  "float_witnesses": len(FLOAT_WITNESSES)}
    run.extra["rule"] = "one obligation per value shape (CrossHair condition) or float witness"
    return run.finish()


def replay(obj):
    if obj.get("kind") == "float":
        ns = {}
        exec(PREAMBLE, ns)
        return not ns["same"](ns["roundtrip"](obj["value"]), obj["value"])
    h = xh.Harness(obj["name"], obj["harness"])
    kind, val = xh.call_harness(PREAMBLE, h, obj["args"], obj.get("kwargs") or {})
    return kind == "exc" or val is False

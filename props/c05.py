"""C05 All exact compilation backends and semirings agree (E1 run-vs-run + concrete anchors)."""
import random
from fractions import Fraction

import problog.evaluator as pev
from problog import get_evaluatable
from problog.evaluator import (Semiring, SemiringProbability, SemiringLogProbability, SemiringSymbolic)
from problog.program import PrologString

from vlib import gen, diffcheck, symsem, sym
from vlib.common import Run, Stats, pmap

FUNCS = ["problog.get_evaluatable / _evaluatables registry / EvaluatableDSP default choice",
         "problog.evaluator.Semiring base-class defaults (through a user-defined subclass)",
         "problog.evaluator.SemiringProbability, SemiringSymbolic (expression parsed back into z3)",
         "problog.ddnnf_formula.SimpleDDNNFEvaluator incl. the is_nsp() branches",
         "problog.evaluator.SemiringLogProbability (concrete anchor points only; algebra in C12)"]


class UserProbability(Semiring):
    """A user-defined probability semiring written against the documented Semiring interface
    (plain float operations, base-class defaults for everything else)."""

    def one(self):
        return 1.0

    def zero(self):
        return 0.0

    def is_one(self, value):
        return value == 1.0

    def plus(self, a, b):
        return a + b

    def times(self, a, b):
        return a * b

    def negate(self, a):
        return 1.0 - a

    def normalize(self, a, z):
        return a / z

    def value(self, a):
        return pev.float(a)   # float(), or the symbolic parameter inside the check

    def is_dsp(self):
        return True


class UserProbabilityNSP(UserProbability):
    def is_nsp(self):
        return True


def _eval_symbolic(expr, symbolic):
    import re
    names = set(re.findall(r"\bp\d+\b", expr))
    ns = {}
    for n in names:
        ns[n] = sym.CUR.params[n] if (symbolic and sym.CUR is not None and n in sym.CUR.params) else None
    if symbolic:
        expr = re.sub(r"(?<![\w.])(\d+\.\d+|\d+)(?![\w.])", r"L(\1)", expr)
        ns["L"] = lambda x: sym.SymReal.lift(x)
    return eval(expr, {"__builtins__": {}}, ns)


def make_cfg(desc):
    backend = desc.get("backend", "ddnnf")
    srk = desc.get("semiring", "prob")

    def cfg(text, sr):
        symbolic = sr is not None
        if backend == "default":
            cls = get_evaluatable(None)
        else:
            cls = get_evaluatable(backend)
        f = cls.create_from(PrologString(text))
        if srk == "prob":
            # the semiring handed in by the route (SymProbability on the real route, BoolSemiring
            # on the world route); ProbLog's default on the concrete replay path
            return f.evaluate(semiring=sr if symbolic else SemiringProbability())
        if srk == "nsp":
            return f.evaluate(semiring=symsem.SymProbabilityNSP())
        if srk == "user":
            return f.evaluate(semiring=UserProbability())
        if srk == "user_nsp":
            return f.evaluate(semiring=UserProbabilityNSP())
        if srk == "log":
            return f.evaluate(semiring=SemiringLogProbability())
        if srk == "symbolic":
            res = f.evaluate(semiring=SemiringSymbolic())
            return dict((k, _eval_symbolic(str(v), symbolic)) for k, v in res.items())
        raise ValueError(srk)
    return cfg


SYMBOLIC_VARIANTS = [{"backend": "default"}, {"semiring": "nsp"}, {"semiring": "user"},
                     {"semiring": "user_nsp"}, {"semiring": "symbolic"}]


def work(item):
    name, prog = item
    text = gen.program_text(prog)
    groups = gen.ad_groups_of(prog)
    st = Stats()
    for d in SYMBOLIC_VARIANTS:
        diffcheck.diff_check(text, make_cfg({}), make_cfg(d), {}, d, groups=groups, name=name, st=st,
                             bool_route=(d == {"backend": "default"}))
    # log-probability: concrete anchor at an interior point (prob <-> logprob algebra: C12)
    params = symsem.find_params(text)
    vals = diffcheck.default_values(params, groups)
    d = {"semiring": "log"}
    rep, info = diffcheck.replay_diff(text, make_cfg({}), make_cfg(d), vals, tol=1e-9, ignore_extra_zero=True)
    st.ob("refuted" if rep else "proved", key="log:" + name)
    if rep:
        st.violation("log:%s" % name, "log-probability semiring disagrees with probability semiring :: " + info,
                     {"kind": "diff", "program": text, "A": {}, "B": d,
                      "values": dict((k, str(v)) for k, v in vals.items())})
    return st


def main(tier, seed):
    run = Run("C05", tier, seed, "translation_validation",
              "available exact backends (ddnnf, default choice) and semiring variants (NSP, user-defined "
              "probability semiring using the base-class defaults, SemiringSymbolic expression parsed back) "
              "evaluated on symbolic weights; z3 proves the rational functions identical. Log-probability is "
              "anchored concretely")
    run.functions = FUNCS
    run.assumptions = ["PySDD is not installed: SDD, SDDExplicit, ForwardSDD, ForwardBDD, BDD are unavailable "
                       "(is_available() False) and NOT covered", "log-probability compared at one interior "
                       "point per skeleton (floats); its algebraic correspondence for all values is C12",
                       "skeletons enumerated"]
    progs = [(n, p) for n, p in gen.corpus()]
    n = 40 if tier == "quick" else 600
    for i in range(n):
        progs.append(("gen/%d/%d" % (seed, i), gen.generate(seed, 25000 + i, max_choices=7)))
    run.bounds = {"skeletons": len(progs), "variants": len(SYMBOLIC_VARIANTS) + 1}
    for st in pmap(work, progs, item_timeout=45 if tier == "quick" else 900):
        run.merge(st)
    return run.finish()


def replay(obj):
    vals = dict((k, Fraction(v)) for k, v in obj["values"].items())
    rep, info = diffcheck.replay_diff(obj["program"], make_cfg(obj["A"]), make_cfg(obj["B"]), vals,
                                      ignore_extra_zero=True)
    return rep

"""C25 Exported ground programs keep the original semantics (E1 run-vs-run + E3 for DIMACS)."""
import random
from fractions import Fraction

import z3

from problog import get_evaluatable
from problog.evaluator import SemiringProbability
from problog.formula import LogicFormula, LogicDAG
from problog.cnf_formula import CNF
from problog.program import PrologString

from vlib import gen, diffcheck, tv, pipeline
from vlib.common import Run, Stats, pmap, short_hash

FUNCS = ["problog.formula.LogicFormula.{to_prolog,enum_clauses,extract_ads,get_body}",
         "problog.tasks.ground (option set of the ground CLI)", "problog.cnf_formula.CNF.{to_dimacs,_contents}",
         "problog.parser (re-parsing the exported text)", "evaluation pipeline as in C01"]

GROUND_OPTS = dict(label_all=True, avoid_name_clash=True, keep_order=True)


def export(text, break_cycles, extra):
    cls = LogicDAG if break_cycles else LogicFormula
    opts = dict(GROUND_OPTS)
    opts.update(extra)
    gp = cls.create_from(PrologString(text), **opts)
    return gp.to_prolog()


def aux_name_clash(text, desc):
    """Does the ground program have two different nodes carrying the same aux_N name?
    (known finding: EvalNot names the auxiliary node of a negated goal after the position of the
    literal only, so different groundings share one name and to_prolog merges their clauses)"""
    cls = LogicDAG if desc.get("break_cycles") else LogicFormula
    opts = dict(GROUND_OPTS)
    opts.update(desc.get("opts", {}))
    try:
        gp = cls.create_from(PrologString(text), **opts)
    except Exception:
        return False
    seen = {}
    for i, n, t in gp:
        nm = getattr(n, "name", None)
        if nm is not None and str(nm.functor).startswith("aux_"):
            key = str(nm)
            content = getattr(n, "children", None)
            if key in seen and seen[key] != content:
                return True
            seen[key] = content
    return False


def evidence_head_fact(text, desc):
    """Known finding: with propagate_evidence the node of an evidence atom that is the head of a
    multi-head annotated disjunction is replaced by TRUE, and to_prolog() then prints it as a plain
    fact next to the (unchanged) AD line, so the other heads are no longer excluded by it.
    Recognised on the exported text: a fact line 'H.' whose atom H is also a head of an AD line."""
    if not desc.get("opts", {}).get("propagate_evidence"):
        return False
    try:
        exp = export(text, desc.get("break_cycles", False), desc.get("opts", {}))
    except Exception:
        return False
    lines = [l.strip() for l in exp.split("\n") if l.strip()]
    facts = set(l[:-1] for l in lines if l.endswith(".") and ":-" not in l and "::" not in l
                and not l.startswith(("query(", "evidence(")))
    culprits = set()
    for l in lines:
        head = l.split(":-")[0]
        if "::" in head and ";" in head:
            for h in head.rstrip(". ").split(";"):
                if h.split("::", 1)[1].strip() in facts:
                    culprits.add(h.split("::", 1)[1].strip())
    if not culprits:
        return False
    # causal test: with exactly those fact lines deleted the export agrees with the original again
    repaired = "\n".join(l for l in lines if l[:-1] not in culprits) + "\n"
    from problog.errors import InconsistentEvidenceError

    def ev(t):
        try:
            r = get_evaluatable("ddnnf").create_from(PrologString(t)).evaluate()
            return dict((str(k), v) for k, v in r.items())
        except InconsistentEvidenceError:
            return "inconsistent"
    try:
        a, b = ev(text), ev(repaired)
    except Exception:
        return False
    if a == "inconsistent" or b == "inconsistent":
        # two heads of one AD made true by the evidence: the original is inconsistent, and so is the repaired export
        return a == b
    return set(a) == set(b) and all(abs(a[k] - b[k]) < 1e-9 for k in a)


def propagated_atom_fact(text, desc):
    """Same mechanism for a derived atom: with propagate_evidence an atom whose value follows from the evidence is
    printed as a plain fact next to its own clauses, so the evidence no longer constrains what it was derived from.
    Causal test as above: deleting exactly those fact lines restores the agreement."""
    if not desc.get("opts", {}).get("propagate_evidence"):
        return False
    try:
        exp = export(text, desc.get("break_cycles", False), desc.get("opts", {}))
    except Exception:
        return False
    lines = [l.strip() for l in exp.split("\n") if l.strip()]
    facts = set(l[:-1] for l in lines if l.endswith(".") and ":-" not in l and "::" not in l
                and not l.startswith(("query(", "evidence(")))
    heads = set(l.split(":-")[0].strip() for l in lines if ":-" in l and "::" not in l.split(":-")[0])
    culprits = facts & heads
    if not culprits:
        return False
    repaired = "\n".join(l for l in lines if l[:-1] not in culprits) + "\n"
    from problog.errors import InconsistentEvidenceError

    def ev(t):
        try:
            r = get_evaluatable("ddnnf").create_from(PrologString(t)).evaluate()
            return dict((str(k), v) for k, v in r.items())
        except InconsistentEvidenceError:
            return "inconsistent"
    try:
        a, b = ev(text), ev(repaired)
    except Exception:
        return False
    if a == "inconsistent" or b == "inconsistent":
        return a == b
    return set(a) == set(b) and all(abs(a[k] - b[k]) < 1e-9 for k in a)


def violated_evidence_next_to_definition(text, desc):
    """Evidence that contradicts a deterministic atom is exported as 'H :- fail. evidence(H).'; when H is also printed
    with its definition (it is a query), the exported program is consistent although the original is not.
    Causal test: the original raises InconsistentEvidenceError, the export does not, and it does again once the other
    definitions of those H are deleted."""
    from problog.errors import InconsistentEvidenceError
    try:
        get_evaluatable("ddnnf").create_from(PrologString(text)).evaluate()
        return False
    except InconsistentEvidenceError:
        pass
    except Exception:
        return False
    try:
        exp = export(text, desc.get("break_cycles", False), desc.get("opts", {}))
    except Exception:
        return False
    lines = [l.strip() for l in exp.split("\n") if l.strip()]
    failing = set(l.split(":-")[0].strip() for l in lines if l.replace(" ", "").endswith(":-fail."))
    if not failing:
        return False
    repaired = "\n".join(l for l in lines if not ((l[:-1] in failing) or (":-" in l and l.split(":-")[0].strip() in failing
                                                                         and not l.replace(" ", "").endswith(":-fail.")))) + "\n"
    try:
        get_evaluatable("ddnnf").create_from(PrologString(repaired)).evaluate()
        return False
    except InconsistentEvidenceError:
        return True
    except Exception:
        return False


def classify(text, key, desc):
    if evidence_head_fact(text, desc):
        return "to_prolog:propagate-evidence:ad-head-printed-as-fact"
    if propagated_atom_fact(text, desc):
        return "to_prolog:propagate-evidence:derived-atom-printed-as-fact"
    if violated_evidence_next_to_definition(text, desc):
        return "to_prolog:violated-evidence-exported-as-failing-clause-next-to-the-definition"
    return None


def make_cfg(desc):
    def cfg(text, sr):
        if desc.get("export"):
            text = export(text, desc.get("break_cycles", False), desc.get("opts", {}))
        f = get_evaluatable("ddnnf").create_from(PrologString(text))
        return f.evaluate(semiring=sr if sr is not None else SemiringProbability())
    return cfg


def dimacs_check(st, name, text):
    ntext = pipeline.numeric_text(text)
    try:
        cnf = pipeline.artifacts(ntext, upto="cnf")["cnf"]
    except Exception as e:
        st.ob("inconclusive", note="pipeline raised %s" % type(e).__name__)
        return
    pkey = short_hash(ntext)
    sat = tv.Sat()
    dim = cnf.to_dimacs()
    nv, nc, clauses = tv.read_dimacs(dim)

    def var(i):
        return z3.Bool("n%d" % i)
    parsed = z3.And(*[z3.Or(*[var(l) if l > 0 else z3.Not(var(-l)) for l in c]) if c else z3.BoolVal(False)
                      for c in clauses]) if clauses else z3.BoolVal(True)
    defs, cons = tv.cnf_clauses(cnf, var)
    internal = z3.And(*(defs + cons)) if defs + cons else z3.BoolVal(True)
    r, m = sat.check(z3.Xor(parsed, internal))
    ok_counts = (nv == cnf.atomcount and nc == len(clauses) == cnf.clausecount)
    maxvar = max([abs(l) for c in clauses for l in c] or [0])
    if r == "unsat" and ok_counts and maxvar <= nv:
        st.ob("proved", key="dimacs:" + pkey)
    elif r == "unknown":
        st.ob("inconclusive", key="dimacs:" + pkey)
    else:
        st.ob("refuted", key="dimacs:" + pkey)
        st.violation("dimacs:%s" % pkey, "DIMACS export differs from the internal CNF (models equal=%s, header "
                     "%s/%s vs %s vars/%s clauses)" % (r == "unsat", nv, nc, cnf.atomcount, len(clauses)),
                     {"kind": "dimacs", "program": ntext})
    st["solver_time"] += sat.solver_time
    st["queries"] += sat.queries


def work(item):
    name, prog = item
    text = gen.program_text(prog)
    groups = gen.ad_groups_of(prog)
    st = Stats()
    for d in ({"export": True, "break_cycles": False}, {"export": True, "break_cycles": True},
              {"export": True, "break_cycles": False, "opts": {"propagate_evidence": True}}):
        try:
            diffcheck.diff_check(text, make_cfg({}), make_cfg(d), {}, d, groups=groups, name=name, st=st,
                                 classify=lambda t, k, d=d: classify(t, k, d))
        except Exception:
            raise
    # same skeleton with every parameter collapsed to one numeric constant: identical ground clauses
    ctext = gen.program_text(gen.collapse_params(prog))
    if ctext != text:
        for d in ({"export": True, "break_cycles": False}, {"export": True, "break_cycles": True}):
            diffcheck.diff_check(ctext, make_cfg({}), make_cfg(d), {}, d, groups=[], name=name + "[collapsed]", st=st,
                                 bool_route=False, classify=lambda t, k, d=d: classify(t, k, d))
    if st["samples"]:
        try:
            st["samples"][0]["exported"] = export(text, False, {})
        except Exception as e:
            st["samples"][0]["exported"] = "error %s" % e
    dimacs_check(st, name, text)
    return st


def main(tier, seed):
    run = Run("C25", tier, seed, "translation_validation",
              "original program vs its to_prolog() export re-parsed by the real parser (with/without cycle "
              "breaking, with evidence propagation), both evaluated with symbolic weights; z3 decides identity. "
              "DIMACS text re-read by an independent reader and proved equivalent to the internal CNF")
    run.functions = FUNCS
    run.assumptions = ["skeletons enumerated; export options as the to_prolog docstring requires "
                       "(label_all, avoid_name_clash, keep_order)",
                       "an instance reported by only one run is accepted iff its value is identically 0"]
    progs = [(n, p) for n, p in gen.corpus()]
    n = 60 if tier == "quick" else 800
    for i in range(n):
        progs.append(("gen/%d/%d" % (seed, i), gen.generate(seed, 17000 + i, max_choices=7)))
    # bodies shared between clauses (same atoms, same or different signs, probabilistic and deterministic heads)
    from props.c31 import twin_program
    import random as _random
    for i in range(n // 3):
        progs.append(("twin/%d/%d" % (seed, i), twin_program(_random.Random("c25t/%s/%s" % (seed, i)))))
    # recursion through a deterministic relation: ground clauses with a single body atom of the head's own predicate
    from vlib.gen import A, P
    for i in range(n // 3):
        r = _random.Random("c25g/%s/%s" % (seed, i))
        nodes = ["a", "b", "c", "d"][: r.randint(3, 4)]
        prog = []
        edges = set()
        for _ in range(r.randint(2, 5)):
            x, y = r.sample(nodes, 2)
            edges.add((x, y))
        for x, y in sorted(edges):
            prog.append(("fact", A("edge", x, y)))
        k = 0
        for x in nodes:
            if r.random() < 0.7:
                k += 1
                prog.append(("ad", [("p%d" % k, A("s", x))], []))
        if k == 0:
            prog.append(("ad", [("p1", A("s", nodes[-1]))], []))
        prog.append(("rule", A("reach", "X"), [P(A("s", "X"))]))
        prog.append(("rule", A("reach", "X"), [P(A("edge", "X", "Y")), P(A("reach", "Y"))]))
        for x in r.sample(nodes, r.randint(1, len(nodes))):
            prog.append(("query", A("reach", x)))
        progs.append(("detgraph/%d/%d" % (seed, i), prog))
    run.bounds = {"skeletons": len(progs)}
    for st in pmap(work, progs, item_timeout=120 if tier == "quick" else 600):
        run.merge(st)
    return run.finish()


def replay(obj):
    if obj.get("kind") == "dimacs":
        st = Stats()
        dimacs_check(st, "replay", obj["program"])
        return bool(st["violations"])
    vals = dict((k, Fraction(v)) for k, v in obj["values"].items())
    rep, info = diffcheck.replay_diff(obj["program"], make_cfg(obj["A"]), make_cfg(obj["B"]), vals,
                                      ignore_extra_zero=True)
    return rep

"""C13 (mechanism) Clause selection order: ClauseIndex.find returns the matching clauses in program order (E4: CrossHair)."""
import itertools
import random

from vlib import xh
from vlib.common import Run, Stats

FUNCS = ["problog.clausedb.ClauseIndex.{append,find,_add}", "problog.util.OrderedSet.{|=,&,-,__iter__} (through find)"]

PREAMBLE = '''
from problog.clausedb import ClauseIndex
from problog.logic import Term, Constant


class Node(object):
    def __init__(self, args):
        self.args = args


class Parent(object):
    def __init__(self):
        self.nodes = {}

    def get_node(self, i):
        return self.nodes[i]


def K(j, var, A, B):
    """argument kind chosen by a symbolic selector, concrete on every path"""
    if j == 0:
        return var
    if j == 1:
        return A
    return B


def build(kinds, arity, A, B):
    p = Parent()
    ci = ClauseIndex(p, arity)
    clauses = []
    for n, ks in enumerate(kinds):
        args = tuple(K(k, None, A, B) for k in ks)
        # a variable in a clause head is a non-ground argument (an int) for the index
        p.nodes[10 + n] = Node([a if a is not None else -1 for a in args])
        ci.append(10 + n)
        clauses.append((10 + n, args))
    return ci, clauses


def expected(clauses, call):
    out = []
    for cid, args in clauses:
        if all(c is None or a is None or a == c for a, c in zip(args, call)):
            out.append(cid)
    return out


def find_ok(kinds, arity, calls):
    A, B = Term('a'), Term('b')     # fresh per path: Term caches its hash
    ci, clauses = build(kinds, arity, A, B)
    for call_k in calls:
        call = tuple(K(k, None, A, B) for k in call_k)
        real = list(ci.find([c if c is not None else -5 for c in call]))
        if real != expected(clauses, call):
            return False
    return True
'''


def harness(idx, nclauses, arity, ncalls, first=None):
    """first: concrete kind of the first argument of the first clause (splits the selector space of a condition by 3)"""
    names = []
    kinds = []
    for c in range(nclauses):
        row = []
        for a in range(arity):
            if first is not None and c == 0 and a == 0:
                row.append(str(first))
                continue
            n = "k%d_%d" % (c, a)
            names.append(n)
            row.append(n)
        kinds.append("(%s,)" % ", ".join(row))
    calls = []
    for q in range(ncalls):
        row = []
        for a in range(arity):
            n = "q%d_%d" % (q, a)
            names.append(n)
            row.append(n)
        calls.append("(%s,)" % ", ".join(row))
    sig = ", ".join("%s: int" % n for n in names)
    pre = " and ".join("0 <= %s <= 2" % n for n in names)
    body = "    return find_ok([%s], %d, [%s])" % (", ".join(kinds), arity, ", ".join(calls))
    name = "h_ci_%d" % idx
    src = 'def %s(%s) -> bool:\n    """\n    pre: %s\n    post: _\n    """\n%s\n' % (name, sig, pre, body)
    return xh.Harness(name, src, {"clauses": nclauses, "arity": arity, "calls": ncalls, "first": first})


def main(tier, seed):
    run = Run("C13", tier, seed, "other",
              "MECHANISM ONLY: the real ClauseIndex (first-argument style indexing with OrderedSet unions/intersections) is filled "
              "with up to 4 clause heads whose argument kinds (variable, constant a, constant b) are symbolic and queried with 1-2 "
              "symbolic call patterns; CrossHair decides over all kind combinations that find() returns exactly the clauses whose "
              "heads can match, in program order, and that an earlier find() does not change a later one")
    run.functions = FUNCS
    run.assumptions = ["whole-program agreement with SWI/Yap on arbitrary pure Prolog is NOT claimed (no Prolog system in the sandbox and "
                       "no symbolic dimension for a deterministic program); the clause-selection-order mechanism is what is decided here",
                       "findall order / duplicates in probabilistic programs: see C19 (two known findings shared with this property)",
                       "argument kinds concretised per path by an if-chain over a symbolic selector"]
    hs = []
    i = 0
    for ncl, ar, nq in ([(1, 1, 1), (2, 1, 1), (3, 1, 1), (3, 1, 2), (2, 2, 1), (3, 2, 1), (2, 2, 2)] +
                        ([(4, 1, 2), (3, 2, 2), (4, 2, 1)] if tier == "thorough" else [])):
        nsel = ncl * ar + nq * ar
        for first in ([None] if nsel <= 4 else [0, 1, 2]):
            i += 1
            hs.append(harness(i, ncl, ar, nq, first))
    timeout = 60 if tier == "quick" else 600
    st = Stats()
    res, cpu = xh.run(hs, PREAMBLE, per_condition_timeout=timeout, per_module=1)
    byname = dict((h.name, h) for h in hs)
    for name, (verdict, detail) in sorted(res.items()):
        h = byname[name]
        okey = "clauses=%d arity=%d calls=%d first=%s" % (h.meta["clauses"], h.meta["arity"], h.meta["calls"], h.meta["first"])
        if verdict == "confirmed":
            st.ob("proved", key=okey)
        elif verdict == "inconclusive":
            st.ob("inconclusive", key=okey, note="%s: %s" % (okey, detail[:60]))
        else:
            call = xh.parse_call(detail)
            ok = False
            if call:
                kind, val = xh.call_harness(PREAMBLE, h, call[1], call[2])
                ok = kind == "exc" or val is False
            if ok:
                st.ob("refuted", key=okey)
                st.violation("clause-index:order-or-membership", "ClauseIndex.find with argument kinds %s (0 variable, 1 a, 2 b; %s): "
                             "result differs from the matching clauses in program order" % (call[1:], okey),
                             {"kind": "xh", "harness": h.source, "name": h.name, "args": list(call[1]), "kwargs": call[2]})
            else:
                st.ob("inconclusive", key=okey, note="counterexample did not replay: %s" % detail[:100])
    st["samples"].append({"harness": hs[3].source})
    st["solver_time"] += cpu
    st["queries"] += len(hs)
    st["programs"] = len(hs)
    run.merge(st)
    run.bounds = {"crosshair_conditions": len(hs), "max_clauses": 4, "max_arity": 2, "per_condition_timeout_s": timeout}
    run.extra["rule"] = "one obligation per (number of clauses, arity, number of calls, kind of the first head argument) configuration; all other argument-kind combinations inside"
    return run.finish()


def replay(obj):
    h = xh.Harness(obj["name"], obj["harness"])
    kind, val = xh.call_harness(PREAMBLE, h, obj["args"], obj.get("kwargs") or {})
    return kind == "exc" or val is False

"""C13 (mechanism) Clause selection order: ClauseIndex.find returns the matching clauses in program order (E4: CrossHair)."""
import itertools
import random

from vlib import xh
from vlib.common import Run, Stats

FUNCS = ["problog.clausedb.ClauseIndex.{append,find,_add}", "problog.util.OrderedSet.{|=,&,-,__iter__} (through find)",
         "problog.engine_stack.DefineCache.{_reindex_vars,__setitem__,__contains__,activate,getEvalNode} / VarReindex / NestedDict"]

PREAMBLE = '''
from problog.clausedb import ClauseIndex
from problog.logic import Term, Constant
try:
    from crosshair.tracers import NoTracing
except ImportError:       # concrete replay outside CrossHair
    import contextlib
    NoTracing = contextlib.nullcontext


class Node(object):
    def __init__(self, args):
        self.args = args


class Parent(object):
    def __init__(self):
        self.nodes = {}

    def get_node(self, i):
        return self.nodes[i]


def K(j, var, A, B):
    """argument kind chosen by a symbolic selector, concrete on every path"""
    if j == 0:
        return var
    if j == 1:
        return A
    if j == 2:
        return B
    # compound kinds (selector range 0..6): variable at depth 1, variable at depth 2, ground compounds
    if j == 3:
        return Term('f', -7)
    if j == 4:
        return Term('f', Term('g', -7))
    if j == 5:
        return Term('f', A)
    return Term('f', Term('g', A))


def build(kinds, arity, A, B):
    p = Parent()
    ci = ClauseIndex(p, arity)
    clauses = []
    for n, ks in enumerate(kinds):
        args = tuple(K(k, None, A, B) for k in ks)
        # a variable in a clause head is a non-ground argument (an int) for the index
        p.nodes[10 + n] = Node([a if a is not None else -1 for a in args])
        ci.append(10 + n)
        clauses.append((10 + n, args))
    return ci, clauses


def _ground(t):
    if t is None or isinstance(t, int):
        return False
    return all(_ground(x) for x in t.args)


def expected(clauses, call):
    """a ground call argument selects the clauses whose head argument is equal or not ground; a call argument that
    contains a variable (at any depth) does not restrict"""
    out = []
    for cid, args in clauses:
        if all((not _ground(c)) or (not _ground(a)) or a == c for a, c in zip(args, call)):
            out.append(cid)
    return out


# ---- part B: tabling keys (DefineCache) identify exactly the variants of a goal ----------------
from problog.engine_stack import DefineCache


def V(j):
    """variable identity chosen by a symbolic selector"""
    if j == 0:
        return -1
    if j == 1:
        return -2
    return -3


def mk_arg(shape, vs, A, B):
    """vs: list of variable ids consumed from the front"""
    if shape == 0:
        return vs.pop(0)
    if shape == 1:
        return Term('f', vs.pop(0))
    if shape == 2:
        return A
    if shape == 3:
        return Term('g', vs.pop(0), vs.pop(0))
    if shape == 4:
        return Term('f', A)
    return B


def canon(args):
    """the goal with its variables numbered by first occurrence (reference variant key)"""
    names = {}
    out = []

    def walk(t):
        if isinstance(t, int):
            if t not in names:
                names[t] = len(names)
            return ('v', names[t])
        return (t.functor,) + tuple(walk(x) for x in t.args)
    for a in args:
        out.append(walk(a))
    return out


def variant_ok(shapes1, ids1, shapes2, ids2):
    A, B = Term('a'), Term('b')
    v1 = [V(i) for i in ids1]
    v2 = [V(i) for i in ids2]
    with NoTracing():          # the variable identities are decided: concrete from here on
        g1 = ('p', [mk_arg(sh, v1, A, B) for sh in shapes1])
        g2 = ('p', [mk_arg(sh, v2, A, B) for sh in shapes2])
        same = canon(g1[1]) == canon(g2[1])
        c = DefineCache({})
        c[g1] = {}
        if (g2 in c) != same:
            return False
        c2 = DefineCache({})
        c2.activate(g1, 'node')
        if (c2.getEvalNode(g2) is not None) != same:
            return False
    return True


def find_ok(kinds, arity, calls):
    A, B = Term('a'), Term('b')     # fresh per path: Term caches its hash
    # the selectors are decided here; everything below is concrete and runs untraced
    ckinds = [tuple(K(k, None, A, B) for k in ks) for ks in kinds]
    ccalls = [tuple(K(k, None, A, B) for k in call_k) for call_k in calls]
    with NoTracing():
        p = Parent()
        ci = ClauseIndex(p, arity)
        clauses = []
        for n, args in enumerate(ckinds):
            # a variable in a clause head is a non-ground argument (an int) for the index
            p.nodes[10 + n] = Node([a if a is not None else -1 for a in args])
            ci.append(10 + n)
            clauses.append((10 + n, args))
        for call in ccalls:
            real = list(ci.find([c if c is not None else -5 for c in call]))
            if real != expected(clauses, call):
                return False
    return True
'''


def harness(idx, nclauses, arity, ncalls, prefix=(), hi=2):
    """prefix: concrete kinds of the leading selectors (splits the selector space of a condition: at most 7 stay symbolic)"""
    names = []
    kinds = []
    pre_vals = list(prefix)
    for c in range(nclauses):
        row = []
        for a in range(arity):
            if pre_vals:
                row.append(str(pre_vals.pop(0)))
                continue
            n = "k%d_%d" % (c, a)
            names.append(n)
            row.append(n)
        kinds.append("(%s,)" % ", ".join(row))
    calls = []
    for q in range(ncalls):
        row = []
        for a in range(arity):
            if pre_vals:
                row.append(str(pre_vals.pop(0)))
                continue
            n = "q%d_%d" % (q, a)
            names.append(n)
            row.append(n)
        calls.append("(%s,)" % ", ".join(row))
    sig = ", ".join("%s: int" % n for n in names)
    pre = " and ".join("0 <= %s <= %d" % (n, hi) for n in names)
    body = "    return find_ok([%s], %d, [%s])" % (", ".join(kinds), arity, ", ".join(calls))
    name = "h_ci_%d" % idx
    src = 'def %s(%s) -> bool:\n    """\n    pre: %s\n    post: _\n    """\n%s\n' % (name, sig, pre, body)
    return xh.Harness(name, src, {"clauses": nclauses, "arity": arity, "calls": ncalls, "kinds": hi + 1,
                                  "first": "".join(str(x) for x in prefix) or None})


NVARS = {0: 1, 1: 1, 2: 0, 3: 2, 4: 0, 5: 0}


def variant_harness(idx, shapes1, shapes2):
    n1 = sum(NVARS[x] for x in shapes1)
    n2 = sum(NVARS[x] for x in shapes2)
    names = ["a%d" % i for i in range(n1)] + ["b%d" % i for i in range(n2)]
    sig = ", ".join("%s: int" % n for n in names)
    hi = 2                                  # 3 variable identities
    pre = " and ".join("0 <= %s <= %d" % (n, hi) for n in names) or "True"
    body = "    return variant_ok(%r, [%s], %r, [%s])" % (list(shapes1), ", ".join(names[:n1]), list(shapes2), ", ".join(names[n1:]))
    name = "h_var_%d" % idx
    src = 'def %s(%s) -> bool:\n    """\n    pre: %s\n    post: _\n    """\n%s\n' % (name, sig, pre, body)
    return xh.Harness(name, src, {"part": "variant", "shapes1": list(shapes1), "shapes2": list(shapes2)})


def variant_harnesses(tier, seed):
    rng = random.Random("c13/%s" % seed)
    sh = list(itertools.product(range(6), repeat=2))
    with_vars = [x for x in sh if sum(NVARS[y] for y in x) >= 1]
    pairs = [(x, x) for x in with_vars]
    others = [(x, y) for x in with_vars for y in with_vars if x != y and sum(NVARS[z] for z in x + y) <= 6]
    rng.shuffle(others)
    pairs += others[: (12 if tier == "quick" else 400)]
    return [variant_harness(i, a, b) for i, (a, b) in enumerate(pairs)]


def main(tier, seed):
    run = Run("C13", tier, seed, "other",
              "MECHANISM ONLY: the real ClauseIndex (first-argument style indexing with OrderedSet unions/intersections) is filled "
              "with up to 4 clause heads whose argument kinds (variable, constant a, constant b) are symbolic and queried with 1-2 "
              "symbolic call patterns; CrossHair decides over all kind combinations that find() returns exactly the clauses whose "
              "heads can match, in program order, and that an earlier find() does not change a later one. Second mechanism: the "
              "tabling cache (DefineCache) is filled / activated with a non-ground goal and asked for another goal of enumerated shape "
              "with SYMBOLIC variable identities: it must answer 'present' exactly when the two goals are variants (equal up to a "
              "consistent renaming of variables), for the table of completed goals and for the table of active goals")
    run.functions = FUNCS
    run.assumptions = ["the selectors are the only symbolic values; once they are decided the real ClauseIndex / DefineCache code runs "
                       "untraced (crosshair.tracers.NoTracing) on concrete arguments", "whole-program agreement with SWI/Yap on arbitrary pure Prolog is NOT claimed (no Prolog system in the sandbox and "
                       "no symbolic dimension for a deterministic program); the clause-selection-order mechanism is what is decided here",
                       "findall order / duplicates in probabilistic programs: see C19 (two known findings shared with this property)",
                       "argument kinds concretised per path by an if-chain over a symbolic selector"]
    hs = []
    i = 0
    for ncl, ar, nq in ([(1, 1, 1), (2, 1, 1), (3, 1, 1), (3, 1, 2), (2, 2, 1), (3, 2, 1), (2, 2, 2), (4, 1, 2)] +
                        ([(3, 2, 2), (4, 2, 1), (4, 2, 2), (5, 1, 2)] if tier == "thorough" else [])):
        nsel = ncl * ar + nq * ar
        for prefix in itertools.product(range(3), repeat=max(0, nsel - 7)):
            i += 1
            hs.append(harness(i, ncl, ar, nq, prefix))
    # seven argument kinds (compound terms, variables at depth 1 and 2)
    for ncl, ar, nq in ([(2, 1, 1), (3, 1, 1)] + ([(2, 2, 1), (3, 1, 2), (4, 1, 1)] if tier == "thorough" else [])):
        nsel = ncl * ar + nq * ar
        for prefix in itertools.product(range(7), repeat=max(0, nsel - 4)):
            i += 1
            hs.append(harness(i, ncl, ar, nq, prefix, hi=6))
    nfind = len(hs)
    hs += variant_harnesses(tier, seed)
    timeout = 150 if tier == "quick" else 900
    st = Stats()
    res, cpu = xh.run(hs, PREAMBLE, per_condition_timeout=timeout, per_module=1)
    byname = dict((h.name, h) for h in hs)
    for name, (verdict, detail) in sorted(res.items()):
        h = byname[name]
        if h.meta.get("part") == "variant":
            okey = "variant:%s:%s" % (h.meta["shapes1"], h.meta["shapes2"])
            if verdict == "confirmed":
                st.ob("proved", key=okey)
            elif verdict == "inconclusive":
                st.ob("inconclusive", key=okey, note="%s: %s" % (okey, detail[:60]))
            else:
                call = xh.parse_call(detail)
                ok = False
                if call:
                    kind, val = xh.call_harness(PREAMBLE, h, call[1], call[2])
                    ok = kind == "exc" or val is False
                if ok:
                    st.ob("refuted", key=okey)
                    st.violation("tabling-key:variants", "DefineCache: goal shapes %s / %s with variable selectors %s: the cache (completed or "
                                 "active table) finds the second goal although it is not a variant of the first, or misses a variant "
                                 "(shape codes 0 V, 1 f(V), 2 a, 3 g(V,V), 4 f(a), 5 b; selector k = variable -(k+1))" % (
                                     h.meta["shapes1"], h.meta["shapes2"], call[1:]),
                                 {"kind": "xh", "harness": h.source, "name": h.name, "args": list(call[1]), "kwargs": call[2]})
                else:
                    st.ob("inconclusive", key=okey, note="counterexample did not replay: %s" % detail[:100])
            continue
        okey = "clauses=%d arity=%d calls=%d kinds=%d first=%s" % (h.meta["clauses"], h.meta["arity"], h.meta["calls"], h.meta.get("kinds", 3), h.meta["first"])
        if verdict == "confirmed":
            st.ob("proved", key=okey)
        elif verdict == "inconclusive":
            st.ob("inconclusive", key=okey, note="%s: %s" % (okey, detail[:60]))
        else:
            call = xh.parse_call(detail)
            ok = False
            if call:
                kind, val = xh.call_harness(PREAMBLE, h, call[1], call[2])
                ok = kind == "exc" or val is False
            if ok:
                st.ob("refuted", key=okey)
                st.violation("clause-index:order-or-membership", "ClauseIndex.find with argument kinds %s (0 variable, 1 a, 2 b, 3 f(V), 4 f(g(V)), 5 f(a), 6 f(g(a)); %s): "
                             "result differs from the matching clauses in program order" % (call[1:], okey),
                             {"kind": "xh", "harness": h.source, "name": h.name, "args": list(call[1]), "kwargs": call[2]})
            else:
                st.ob("inconclusive", key=okey, note="counterexample did not replay: %s" % detail[:100])
    st["samples"].append({"harness": hs[3].source})
    st["solver_time"] += cpu
    st["queries"] += len(hs)
    st["programs"] = len(hs)
    run.merge(st)
    run.bounds = {"crosshair_conditions": len(hs), "clause_index_conditions": nfind, "variant_conditions": len(hs) - nfind,
                  "max_clauses": 4, "max_arity": 2, "variable_ids": 3, "per_condition_timeout_s": timeout}
    run.extra["rule"] = "one obligation per (number of clauses, arity, number of calls, concrete prefix of argument kinds) configuration; the last seven argument kinds are symbolic"
    return run.finish()


def replay(obj):
    h = xh.Harness(obj["name"], obj["harness"])
    kind, val = xh.call_harness(PREAMBLE, h, obj["args"], obj.get("kwargs") or {})
    return kind == "exc" or val is False

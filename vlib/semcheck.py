"""C01-style obligations: real pipeline (E1) against the reference semantics (E2)."""
import re
import time
from fractions import Fraction

import z3

from problog.errors import InconsistentEvidenceError, GroundingError
from problog.engine_stack import NegativeCycle

from . import gen, refsem, symsem, sym
from .common import Stats, short_hash


def parse_atom(s):
    s = s.strip()
    m = re.match(r"^([a-z][A-Za-z0-9_]*)\((.*)\)$", s)
    if not m:
        return (s, ())
    return (m.group(1), tuple(x.strip() for x in m.group(2).split(",")))


def constant_constraints(G):
    """Worlds of probability zero are excluded: heads with constant probability 0 / 1."""
    cs = []
    for g in G.groups:
        tot = Fraction(0)
        allconst = True
        for pr, b in g.heads:
            if pr[:1] == "p":
                allconst = False
                continue
            f = Fraction(pr)
            tot += f
            if f == 0:
                cs.append(z3.Not(z3.Bool(b)))
            elif f == 1:
                cs.append(z3.Bool(b))
        if allconst and tot == 1 and len(g.heads) > 1:
            cs.append(z3.Or(*[z3.Bool(b) for _, b in g.heads]))
    return cs


class Ref(object):
    """Reference objects for one program."""

    def __init__(self, prog):
        self.prog = prog
        self.G = refsem.ground(prog)
        self.negcyc = refsem.negative_cycle_atoms(self.G)
        self.legal = refsem.legal_constraints(self.G) + constant_constraints(self.G)
        self.params = sorted(set(pr for g in self.G.groups for pr, _ in g.heads if pr[:1] == "p"),
                             key=lambda s: int(s[1:]))
        self.ad_groups = [[pr for pr, _ in g.heads if pr[:1] == "p"] for g in self.G.groups]
        self.const_mass = []
        self.phi = None

    def region(self):
        cs = []
        for p in self.params:
            cs += [z3.Real(p) > 0, z3.Real(p) < 1]
        for g in self.G.groups:
            if len(g.heads) > 1:
                cs.append(z3.Sum([refsem._prob_term(pr) for pr, _ in g.heads]) < 1)
        return cs

    def build(self):
        self.phi = refsem.semantics(self.G, refsem.Z3Alg)
        F = z3.BoolVal(False)
        ev = []
        for a, sign in self.G.evidence:
            v = self.phi.get(a, F)
            ev.append(v if sign else z3.Not(v))
        self.phi_e = z3.And(*ev) if ev else z3.BoolVal(True)
        self.instances = []
        for pat in self.G.query_patterns:
            for inst in refsem.query_instances(self.G, pat):
                if inst not in self.instances:
                    self.instances.append(inst)
        return self

    def tables(self):
        """Truth tables (concrete reference evaluation of every legal world)."""
        atoms = list(self.instances) + [a for a, _ in self.G.evidence]
        t = refsem.truth_table(self.G, atoms)
        n = refsem.world_count(self.G)
        e_tab = [True] * n
        for a, sign in self.G.evidence:
            ta = t.get(a) or [False] * n
            e_tab = [x and (y if sign else not y) for x, y in zip(e_tab, ta)]
        self.e_tab = e_tab
        self.q_tabs = dict((a, [x and y for x, y in zip(t[a], e_tab)]) for a in self.instances)
        return self


def check_semantics(prog, name="", real_limit=2048, bool_route=True, real_route=True,
                    backend="ddnnf", timeout_ms=20000, create_kwargs=None, text=None):
    """All C01 obligations for one skeleton. Returns Stats."""
    st = Stats()
    st["programs"] = 1
    create_kwargs = create_kwargs or {}
    text = text or gen.program_text(prog)
    ref = Ref(prog)
    if ref.negcyc:
        st.ob("inconclusive", note="skeleton has a ground cycle through negation (C02 domain)")
        return st
    ref.build()
    has_ev = bool(ref.G.evidence)
    pv = symsem.Prover(ref.region(), timeout_ms)
    pkey = short_hash(text)
    if len(st["samples"]) < 1:
        st["samples"].append({"name": name, "program": text})

    # reference: is the evidence consistent in some legal (positive-probability) world?
    r_e, _ = pv.check(ref.phi_e, extra=ref.legal)
    if r_e == "unknown":
        st.ob("inconclusive", note="phi_e sat unknown")
        return st
    consistent = (r_e == "sat")

    def violation(what, kind, detail, values=None, keyed_by_site=False):
        """Replay against the real code with the default semirings before reporting."""
        rep = replay_semantics({"program": text, "ast": prog, "values": values, "backend": backend,
                                "create_kwargs": create_kwargs})
        if rep["reproduced"]:
            key = "%s:%s" % (kind, detail) if keyed_by_site else "%s:%s:%s" % (kind, pkey, detail)
            st.violation(key, what + " :: " + rep["detail"],
                         {"kind": "semantics", "program": text, "ast": prog, "values":
                             dict((k, str(v)) for k, v in (values or {}).items()),
                          "backend": backend, "create_kwargs": create_kwargs})
            return True
        return False

    # ---------------- Boolean route: all worlds --------------------------------------
    if bool_route:
        try:
            out, bsr = symsem.run_bool(text, ref.legal, backend=backend, **create_kwargs)
            st["solver_time"] += bsr.solver_time
            st["queries"] += bsr.queries
        except (sym.Unsupported, sym.Inconclusive) as e:
            out = None
            st.ob("inconclusive", note="bool route: %s" % e)
        if out is not None:
            _judge(st, ref, out, pv, consistent, "bool", violation, has_ev)

    # ---------------- Real route: all parameter values -------------------------------
    if real_route and refsem.world_count(ref.G) <= real_limit:
        ref.tables()
        # the enumeration is tied to the symbolic reference by the solver
        Z_ref, e_fun = refsem.poly_of_table(ref.G, ref.e_tab)
        v, _ = pv.bool_equiv(e_fun, ref.phi_e, extra=ref.legal)
        st.ob("proved" if v == "proved" else "inconclusive", key="reftab:" + pkey)
        if v == "refuted":
            st.harness_error("reference truth table disagrees with symbolic reference: %s" % name)
            return st
        ref.Z_ref = Z_ref
        ref.N_ref = {}
        for a in ref.instances:
            poly, fun = refsem.poly_of_table(ref.G, ref.q_tabs[a])
            ref.N_ref[a] = poly
        try:
            outs, drv = symsem.run_real(text, ref.params, region=ref.region(), backend=backend,
                                        timeout_ms=timeout_ms, **create_kwargs)
            st["solver_time"] += drv.solver_time
            st["queries"] += drv.queries
        except (sym.Unsupported, sym.Inconclusive) as e:
            outs = []
            st.ob("inconclusive", note="real route: %s" % e)
        for out in outs:
            _judge(st, ref, out, pv, consistent, "real", violation, has_ev)
    st["solver_time"] += pv.solver_time
    st["queries"] += pv.queries
    return st


def _judge(st, ref, out, pv, consistent, route, violation, has_ev):
    pkey = short_hash(gen.program_text(ref.prog))
    extra = list(ref.legal) + list(out.pc)
    if out.kind == "error":
        e = out.error
        if isinstance(e, InconsistentEvidenceError):
            if consistent and not out.pc:
                ok = violation("evidence has positive probability but InconsistentEvidenceError raised",
                               "spurious-inconsistent", route)
                st.ob("refuted" if ok else "inconclusive", key="incons:" + pkey,
                      note="spurious inconsistent evidence did not replay")
            else:
                st.ob("proved", key="incons:" + pkey)
        else:
            ok = violation("inference raised %s at %s: %s" % (type(e).__name__, call_site(e), str(e)[:200]),
                           "error", "%s@%s" % (type(e).__name__, call_site(e)), keyed_by_site=True)
            if ok:
                st.ob("refuted", key="err:" + pkey)
            else:
                import traceback
                st.harness_error("route %s raised %s (%s) but the concrete run did not: %s" % (
                    route, type(e).__name__, e, gen.program_text(ref.prog)))
        return
    if not consistent:
        ok = violation("evidence has probability 0 but inference answered", "answered-inconsistent", route)
        st.ob("refuted" if ok else "inconclusive", key="incons:" + pkey,
              note="answered-inconsistent did not replay")
        return
    reported = {}
    for k, v in out.results.items():
        reported[parse_atom(k)] = v
    F = z3.BoolVal(False)
    for a, (num, den) in reported.items():
        okey = "%s:%s:%s" % (route, pkey, gen.atom_str(a))
        if route == "bool":
            phi_q = ref.phi.get(a, F)
            if has_ev:
                # agreement on every evidence world (necessary condition; exactness is the
                # real route's job)
                conds = [z3.Xor(num, phi_q)]
                if den is not None:
                    conds.append(z3.Not(den))
                r, m = pv.check(z3.Or(*conds), extra=extra + [ref.phi_e])
            else:
                r, m = pv.check(z3.Xor(num, phi_q), extra=extra)
            if r == "unsat":
                st.ob("proved", key=okey)
            elif r == "sat":
                vals = _world_to_values(ref, m)
                ok = violation("query %s: circuit and reference disagree in world %s" % (
                    gen.atom_str(a), _world_str(ref, m)), "bool", gen.atom_str(a), vals)
                st.ob("refuted" if ok else "inconclusive", key=okey,
                      note="bool-route disagreement did not replay numerically: %s" % gen.atom_str(a))
            else:
                st.ob("inconclusive", key=okey, note="z3 unknown (bool)")
        else:
            if a not in ref.N_ref:
                nref = z3.RealVal(0)
            else:
                nref = ref.N_ref[a]
            v, m = pv.frac_equal((num, den), (nref, ref.Z_ref), extra=list(out.pc))
            if v == "proved":
                st.ob("proved", key=okey)
            elif v == "refuted":
                vals = symsem.model_values(m, ref.params)
                ok = violation("query %s: probability differs from the distribution semantics at %s" % (
                    gen.atom_str(a), dict((k, str(x)) for k, x in vals.items())), "real",
                    gen.atom_str(a), vals)
                if ok:
                    st.ob("refuted", key=okey)
                else:
                    st.harness_error("real-route model for %s did not replay: %s values=%s" % (
                        gen.atom_str(a), gen.program_text(ref.prog), vals))
            else:
                st.ob("inconclusive", key=okey, note="z3 unknown (nra identity)")
    # unreported instances must have probability 0
    for a in ref.instances:
        if a in reported:
            continue
        okey = "%s:unrep:%s:%s" % (route, pkey, gen.atom_str(a))
        r, m = pv.check(ref.phi.get(a, F), ref.phi_e, extra=extra)
        if r == "unsat":
            st.ob("proved", key=okey)
        elif r == "sat":
            vals = _world_to_values(ref, m)
            ok = violation("query instance %s not reported but true in world %s" % (
                gen.atom_str(a), _world_str(ref, m)), "unreported", gen.atom_str(a), vals)
            st.ob("refuted" if ok else "inconclusive", key=okey, note="unreported instance did not replay")
        else:
            st.ob("inconclusive", key=okey)


def call_site(e):
    """Innermost problog frame of an exception: 'file.py:function' (identifies a call site)."""
    import traceback
    site = "?"
    for fr in traceback.extract_tb(e.__traceback__):
        if "/problog/" in fr.filename:
            site = "%s:%s" % (fr.filename.rsplit("/", 1)[-1], fr.name)
    return site


def _world_str(ref, m):
    out = []
    for g in ref.G.groups:
        for pr, b in g.heads:
            if z3.is_true(m.eval(z3.Bool(b), model_completion=True)):
                out.append(b)
    return "{" + ",".join(out) + "}"


def _world_to_values(ref, m):
    """Parameter values that give the model's world a large probability."""
    vals = {}
    for g in ref.G.groups:
        k = len(g.heads)
        for pr, b in g.heads:
            if pr[:1] != "p":
                continue
            t = z3.is_true(m.eval(z3.Bool(b), model_completion=True))
            if k == 1:
                vals[pr] = Fraction(7, 8) if t else Fraction(1, 8)
            else:
                vals[pr] = Fraction(3, 4) if t else Fraction(1, 8 * k)
    return vals


def replay_semantics(rep):
    """Concrete replay with the default semirings: run the real pipeline on the program with
    numeric parameters and compare with the exact reference probabilities."""
    prog = [tuple(s) for s in _detuple(rep["ast"])]
    values = dict((k, Fraction(v)) for k, v in (rep.get("values") or {}).items())
    ref = Ref(prog).build()
    for p in ref.params:
        values.setdefault(p, Fraction(1, 2) if all(len(g) < 2 or p not in g for g in ref.ad_groups)
                          else Fraction(1, 4))
    text = symsem.substitute_params(rep["program"], values)
    kind, res = symsem.run_float(text, backend=rep.get("backend", "ddnnf"),
                                 **(rep.get("create_kwargs") or {}))
    ref.tables()
    pe = refsem.exact_probability(ref.G, ref.e_tab, values)
    if kind == "error":
        if isinstance(res, InconsistentEvidenceError):
            if pe > 0:
                return {"reproduced": True, "detail": "InconsistentEvidenceError but P(e)=%s" % pe}
            return {"reproduced": False, "detail": "inconsistent as expected"}
        return {"reproduced": True, "detail": "raised %s: %s" % (type(res).__name__, str(res)[:200])}
    if pe == 0:
        return {"reproduced": True, "detail": "answered %s but P(evidence)=0" % res}
    got = dict((parse_atom(k), v) for k, v in res.items())
    for a in ref.instances:
        exp = refsem.exact_probability(ref.G, ref.q_tabs[a], values) / pe
        if a in got:
            if abs(float(exp) - got[a]) > 1e-7:
                return {"reproduced": True, "detail": "%s: problog %.10f, distribution semantics %.10f at %s" % (
                    gen.atom_str(a), got[a], float(exp), dict((k, str(v)) for k, v in values.items()))}
        elif exp > 0:
            return {"reproduced": True, "detail": "%s not reported but has probability %s" % (gen.atom_str(a), exp)}
    for a in got:
        if a not in ref.instances and got[a] > 1e-7:
            return {"reproduced": True, "detail": "%s reported with %.10f but is not derivable" % (gen.atom_str(a), got[a])}
    return {"reproduced": False, "detail": "concrete run agrees with the reference"}


def _detuple(ast):
    """JSON round trip turns tuples into lists; restore the tuple shape of atoms."""
    out = []
    for s in ast:
        s = list(s)
        k = s[0]
        if k in ("fact", "query"):
            out.append((k, _atom(s[1])))
        elif k == "evidence":
            out.append((k, _atom(s[1]), bool(s[2])))
        elif k == "rule":
            out.append((k, _atom(s[1]), [(_atom(l[0]), bool(l[1])) for l in s[2]]))
        elif k == "ad":
            out.append((k, [(h[0], _atom(h[1])) for h in s[1]], [(_atom(l[0]), bool(l[1])) for l in s[2]]))
        else:
            out.append(tuple(s))
    return out


def _atom(a):
    return (a[0], tuple(a[1]))

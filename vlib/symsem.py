"""E1: symbolic-weight execution of the real ProbLog inference pipeline.

Real route : the *real* SemiringProbability methods run on SymReal proxies (builtin float is
             shadowed as a module global of problog.evaluator), so every query result is the
             rational function N(p)/Z(p) the real code computes.
Bool route : a Semiring whose values are z3 Bool terms; a query result is the indicator
             "world x is a model of circuit & query" as a Boolean function of the choices.
"""
import re
import time

import z3

import problog
import problog.evaluator as pev
from problog import get_evaluatable
from problog.evaluator import Semiring, SemiringProbability
from problog.errors import InconsistentEvidenceError
from problog.formula import LogicFormula, LogicDAG, LogicNNF
from problog.logic import Term, Constant
from problog.program import PrologString

from . import sym
from .sym import SymReal, PathDriver, Inconclusive, Unsupported

PARAM_RE = re.compile(r"^p\d+$")


def _is_param(x):
    if sym.CUR is None:
        return None
    if type(x) is Term and x.arity == 0:
        return sym.CUR.params.get(x.functor)
    if type(x) is Constant and isinstance(x.functor, SymReal):
        return x.functor
    if type(x) is Constant and type(x.functor) in (float, int):
        # numeric constants are exact rationals during a symbolic run (no float rounding)
        return SymReal.lift(x.functor)
    return None


# Shadow the builtin float() inside problog.evaluator only: Semiring*.value() calls float(a).
pev.float = sym.make_sym_float(_is_param)


class SymProbability(SemiringProbability):
    """The real probability semiring; nothing is overridden except the factory hook."""

    @classmethod
    def create(cls, *, engine, database, **kwargs):
        return cls()


class SymProbabilityNSP(SymProbability):
    def is_nsp(self):
        return True


class BFrac(object):
    __slots__ = ("num", "den")

    def __init__(self, num, den):
        self.num = num
        self.den = den


class BoolSemiring(Semiring):
    """Possible-world indicator semiring: plus=Or, times=And over z3 Bool terms."""

    def __init__(self, legal=None):
        self.vars = {}
        self.by_name = {}
        self.legal = legal or []
        self.solver_time = 0.0
        self.queries = 0

    def one(self):
        return z3.BoolVal(True)

    def zero(self):
        return z3.BoolVal(False)

    def _check(self, e):
        s = z3.Solver()
        s.set("timeout", 20000)
        for c in self.legal:
            s.add(c)
        s.add(e)
        t = time.time()
        r = str(s.check())
        self.solver_time += time.time() - t
        self.queries += 1
        if r == "unknown":
            raise Inconclusive("bool semiring decision unknown")
        return r

    def is_zero(self, v):
        v = z3.simplify(v)
        if z3.is_false(v):
            return True
        if z3.is_true(v):
            return False
        return self._check(v) == "unsat"

    def is_one(self, v):
        v = z3.simplify(v)
        if z3.is_true(v):
            return True
        if z3.is_false(v):
            return False
        return self._check(z3.Not(v)) == "unsat"

    def plus(self, a, b):
        return z3.Or(a, b)

    def times(self, a, b):
        return z3.And(a, b)

    def negate(self, a):
        return z3.Not(a)

    def value(self, a):
        if type(a) is Term and a.arity == 0 and PARAM_RE.match(a.functor):
            return z3.Bool("x" + a.functor[1:])
        try:
            f = float(a)
        except Exception:
            raise Unsupported("bool route: weight %s" % a)
        if f == 0.0:
            return z3.BoolVal(False)
        if f == 1.0:
            return z3.BoolVal(True)
        raise Unsupported("bool route: numeric weight %s" % a)

    def result(self, a, formula=None):
        return a

    def normalize(self, a, z):
        return BFrac(a, z)

    def is_dsp(self):
        return True

    def ad_negate(self, pos, neg):
        return z3.BoolVal(True)

    def ad_complement(self, ws, key=None):
        return z3.Not(z3.Or(*ws)) if ws else z3.BoolVal(True)

    @classmethod
    def create(cls, *, engine, database, **kwargs):
        return cls()


class Outcome(object):
    """Result of one path of a symbolic run."""

    def __init__(self, pc, kind, results=None, error=None):
        self.pc = pc
        self.kind = kind  # 'ok' | 'error'
        self.results = results or {}  # str(name) -> (num z3, den z3 or None)
        self.error = error  # exception instance

    def __repr__(self):
        return "Outcome(%s,%s,%s)" % (self.kind, {k: str(v)[:50] for k, v in self.results.items()},
                                      type(self.error).__name__ if self.error else None)


def default_region(params, ad_groups=(), lo="0", hi="1"):
    """Open box (lo,hi)^n with every AD group's sum < 1."""
    cs = []
    for p in params:
        v = z3.Real(p)
        cs.append(v > z3.RealVal(lo))
        cs.append(v < z3.RealVal(hi))
    for g in ad_groups:
        if len(g) > 1:
            cs.append(z3.Sum([z3.Real(p) for p in g]) < 1)
    return cs


def find_params(text):
    return sorted(set(re.findall(r"\bp\d+\b", text)), key=lambda s: int(s[1:]))


def evaluate_text(text, semiring, backend="ddnnf", evaluate_kwargs=None, **create_kwargs):
    """Run the real pipeline on program text; returns {str(query): value}."""
    cls = get_evaluatable(backend, semiring=semiring) if backend != "default" \
        else get_evaluatable(None, semiring=semiring)
    f = cls.create_from(PrologString(text), **create_kwargs)
    return _stringify(f.evaluate(semiring=semiring, **(evaluate_kwargs or {})))


def _stringify(res):
    out = {}
    for k, v in res.items():
        out[str(k)] = v
    return out


def run_real(fn_or_text, params, region=None, ad_groups=(), backend="ddnnf", max_paths=16,
             timeout_ms=10000, semiring_cls=SymProbability, param_sign="p", **create_kwargs):
    """Explore all weight-domain paths of the real pipeline over SymReal parameters.

    fn_or_text: program text, or a callable(semiring) -> {name: SymReal|number} for custom
    pipelines (histories, exports...).  Returns (list[Outcome], driver)."""
    if region is None:
        region = default_region(params, ad_groups)
    drv = PathDriver(region, timeout_ms=timeout_ms, max_paths=max_paths)
    drv.params = dict((p, sym.param(p, param_sign)) for p in params)

    def once():
        sr = semiring_cls()
        if callable(fn_or_text):
            return fn_or_text(sr)
        return evaluate_text(fn_or_text, sr, backend, **create_kwargs)

    paths = drv.explore(once)
    outs = []
    for pc, kind, val in paths:
        if kind == "ok":
            res = {}
            for k, v in val.items():
                v = SymReal.lift(v) if not isinstance(v, SymReal) else v
                res[k] = (v.e, v.den)
            outs.append(Outcome(pc, "ok", res))
        else:
            outs.append(Outcome(pc, "error", error=val))
    return outs, drv


def run_bool(fn_or_text, legal=(), backend="ddnnf", **create_kwargs):
    """Boolean route. Returns Outcome with results name -> (num Bool, den Bool|None)."""
    sr = BoolSemiring(list(legal))
    try:
        if callable(fn_or_text):
            val = fn_or_text(sr)
        else:
            val = evaluate_text(fn_or_text, sr, backend, **create_kwargs)
    except (Unsupported, Inconclusive):
        raise
    except Exception as e:
        return Outcome([], "error", error=e), sr
    res = {}
    for k, v in val.items():
        if isinstance(v, BFrac):
            res[k] = (v.num, v.den)
        else:
            res[k] = (v, None)
    return Outcome([], "ok", res), sr


def run_float(text, backend="ddnnf", semiring=None, **create_kwargs):
    """Plain concrete run with the default semirings (the replay / anchor path)."""
    cls = get_evaluatable(backend if backend != "default" else None)
    try:
        f = cls.create_from(PrologString(text), **create_kwargs)
        return "ok", _stringify(f.evaluate(semiring=semiring))
    except Exception as e:
        return "error", e


def substitute_params(text, values):
    """Replace parameter atoms p<k> by concrete decimal numbers (values: name -> Fraction/float)."""
    def rep(m):
        v = values.get(m.group(0))
        if v is None:
            return m.group(0)
        return repr(float(v))
    return re.sub(r"\bp\d+\b", rep, text)


# ---------------------------------------------------------------------------------------
# identity / equivalence obligations

class Prover(object):
    """z3 front-end that records time and query counts; every call has a timeout."""

    def __init__(self, region=(), timeout_ms=20000):
        self.region = list(region)
        self.timeout_ms = timeout_ms
        self.solver_time = 0.0
        self.queries = 0

    def check(self, *conds, extra=()):
        s = z3.Solver()
        s.set("timeout", self.timeout_ms)
        for c in self.region:
            s.add(c)
        for c in extra:
            s.add(c)
        for c in conds:
            s.add(c)
        t = time.time()
        r = s.check()
        self.solver_time += time.time() - t
        self.queries += 1
        if str(r) == "sat":
            return "sat", s.model()
        return str(r), None

    def frac_equal(self, a, b, extra=()):
        """a=(n1,d1), b=(n2,d2) (den None = 1): is n1*d2 == n2*d1 for all params in region?
        returns ('proved'|'refuted'|'inconclusive', model)"""
        n1, d1 = a
        n2, d2 = b
        lhs = n1 if d2 is None else n1 * d2
        rhs = n2 if d1 is None else n2 * d1
        diff = z3.simplify(lhs - rhs, som=True)
        if z3.is_rational_value(diff) and diff.numerator_as_long() == 0:
            self.queries += 1
            return "proved", None
        r, m = self.check(lhs != rhs, extra=extra)
        if r == "unsat":
            return "proved", None
        if r == "sat":
            return "refuted", m
        return "inconclusive", None

    def bool_equiv(self, a, b, extra=()):
        r, m = self.check(z3.Xor(a, b), extra=extra)
        if r == "unsat":
            return "proved", None
        if r == "sat":
            return "refuted", m
        return "inconclusive", None


def model_values(model, params, default="1/2"):
    """Extract exact rational parameter values from a z3 model."""
    from fractions import Fraction
    out = {}
    for p in params:
        v = model.eval(z3.Real(p), model_completion=True)
        try:
            out[p] = Fraction(v.numerator_as_long(), v.denominator_as_long())
        except Exception:
            # algebraic number: approximate
            out[p] = Fraction(str(v.approx(20)).rstrip("?")) if hasattr(v, "approx") else Fraction(default)
    return out

"""In-process observation of engine events that identify known defects by call site.

Nothing in /repo is changed: StackBasedEngine.eval_define is wrapped inside the check process
only (add-only observation; the wrapped method is called with unchanged arguments)."""
import contextlib

import problog.engine_stack as es
import problog.eval_nodes as en

EVENTS = []


def _wrapped_eval_define(orig, bypass=False):
    def eval_define(self, node, context, target, parent, identifier=None, transform=None, is_root=False,
                    no_cache=False, **kwdargs):
        n_before = len(EVENTS)
        try:
            if not no_cache:
                goal = (node.functor, context)
                if target._cache.get(goal) is not None and target._cache.getEvalNode(goal) is not None:
                    # the goal is still being evaluated (active) but a result node is already in the
                    # cache (EvalDefine.new_result caches the first node of a ground goal on a cycle)
                    # ... and it is read from below a negation that lies between the active goal and this call
                    active = target._cache.getEvalNode(goal)
                    cur = parent
                    steps = 0
                    while cur is not None and steps < 10000:
                        pn = self.stack[cur]
                        if pn is None or pn is active or getattr(pn, "pointer", None) == getattr(active, "pointer", -1):
                            break
                        if isinstance(pn, en.EvalNot):
                            EVENTS.append("negation-reads-cached-node-of-active-goal")
                            break
                        cur = pn.parent
                        steps += 1
        except Exception:
            pass
        if bypass and len(EVENTS) > n_before:
            # causal test: do not take the cached node of the active goal; the call then reaches the active node
            # and the engine's ordinary cycle handling
            no_cache = True
        return orig(self, node=node, context=context, target=target, parent=parent, identifier=identifier,
                    transform=transform, is_root=is_root, no_cache=no_cache, **kwdargs)
    return eval_define


@contextlib.contextmanager
def observe(bypass=False):
    """with observe() as events: ... ; events is the list of event names seen inside the block.
    bypass=True additionally makes the observed reads skip the cache (causal test of the known finding)."""
    orig = es.StackBasedEngine.eval_define
    del EVENTS[:]
    es.StackBasedEngine.eval_define = _wrapped_eval_define(orig, bypass)
    try:
        yield EVENTS
    finally:
        es.StackBasedEngine.eval_define = orig

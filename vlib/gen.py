"""Program skeleton generator (own AST, shared by the printer and the reference semantics).

AST (plain tuples so that it pickles and prints easily):
  atom   = (pred, (arg, ...))          arg: str; starts with uppercase or '_' => variable
  lit    = (atom, neg: bool)
  stmts:
    ('fact', atom)                      deterministic fact
    ('ad', [(prob, atom), ...], [lit])  probabilistic fact / AD / probabilistic clause
                                        prob: parameter atom 'p7', a variable bound by the body
                                        (flexible probability) or a decimal string
    ('rule', atom, [lit])
    ('query', atom)
    ('evidence', atom, bool)
Every ground choice instance gets its own parameter p<k> (non-ground probabilistic clauses use
flexible probabilities  P::f(X) :- w(X,P)  with  w(a,p3). w(b,p4).).
"""
import random


def is_var(a):
    return a[:1].isupper() or a[:1] == "_"


def atom_str(a):
    pred, args = a
    if not args:
        return pred
    return "%s(%s)" % (pred, ",".join(args))


def lit_str(l):
    a, neg = l
    return ("\\+" if neg else "") + atom_str(a)


def stmt_str(s):
    k = s[0]
    if k == "fact":
        return "%s." % atom_str(s[1])
    if k == "ad":
        heads = "; ".join("%s::%s" % (p, atom_str(a)) for p, a in s[1])
        if s[2]:
            return "%s :- %s." % (heads, ", ".join(lit_str(l) for l in s[2]))
        return heads + "."
    if k == "rule":
        return "%s :- %s." % (atom_str(s[1]), ", ".join(lit_str(l) for l in s[2]))
    if k == "query":
        return "query(%s)." % atom_str(s[1])
    if k == "evidence":
        return "evidence(%s,%s)." % (atom_str(s[1]), "true" if s[2] else "false")
    if k == "raw":
        return s[1]
    raise ValueError(k)


def program_text(prog):
    return "\n".join(stmt_str(s) for s in prog) + "\n"


def A(pred, *args):
    return (pred, tuple(args))


def P(a):
    return (a, False)


def N(a):
    return (a, True)


# ---------------------------------------------------------------------------------------
# hand-written regression corpus: one skeleton per mechanism named in the anchors

def corpus():
    C = []

    def add(name, prog):
        C.append((name, prog))

    add("fact", [("ad", [("p1", A("a"))], []), ("query", A("a"))])
    add("two-facts-rule", [("ad", [("p1", A("a"))], []), ("ad", [("p2", A("b"))], []),
                           ("rule", A("c"), [P(A("a")), P(A("b"))]),
                           ("rule", A("c"), [N(A("a"))]), ("query", A("c"))])
    add("ad-fact", [("ad", [("p1", A("a")), ("p2", A("b")), ("p3", A("c"))], []),
                    ("rule", A("d"), [N(A("a")), N(A("b"))]),
                    ("query", A("a")), ("query", A("d")), ("query", A("c"))])
    add("ad-body-evidence", [("ad", [("p1", A("r"))], []),
                             ("ad", [("p2", A("a")), ("p3", A("b"))], [P(A("r"))]),
                             ("rule", A("q"), [N(A("a"))]),
                             ("evidence", A("b"), False), ("query", A("q")), ("query", A("a"))])
    add("ad-shared-body-two-instances",
        [("fact", A("w", "a", "p1", "p2")), ("fact", A("w", "b", "p3", "p4")),
         ("ad", [("p5", A("on"))], []),
         ("ad", [("P1", A("red", "X")), ("P2", A("green", "X"))], [P(A("w", "X", "P1", "P2")), P(A("on"))]),
         ("rule", A("somered"), [P(A("red", "X"))]),
         ("query", A("somered")), ("query", A("green", "X"))])
    add("cycle-evidence-negation",
        [("fact", A("w", "a", "b", "p1")), ("fact", A("w", "b", "a", "p2")), ("fact", A("w", "b", "c", "p3")),
         ("fact", A("w", "a", "c", "p4")),
         ("ad", [("P", A("e", "X", "Y"))], [P(A("w", "X", "Y", "P"))]),
         ("rule", A("path", "X", "Y"), [P(A("e", "X", "Y"))]),
         ("rule", A("path", "X", "Y"), [P(A("e", "X", "Z")), P(A("path", "Z", "Y"))]),
         ("rule", A("iso"), [N(A("path", "a", "c"))]),
         ("evidence", A("path", "b", "a"), True),
         ("query", A("path", "a", "c")), ("query", A("iso")), ("query", A("path", "a", "a"))])
    add("mutual-recursion",
        [("ad", [("p1", A("f"))], []), ("ad", [("p2", A("g"))], []), ("ad", [("p3", A("h"))], []),
         ("rule", A("a"), [P(A("b")), P(A("f"))]), ("rule", A("b"), [P(A("a"))]),
         ("rule", A("b"), [P(A("g"))]), ("rule", A("a"), [P(A("h"))]),
         ("rule", A("c"), [N(A("a")), P(A("b"))]),
         ("query", A("a")), ("query", A("b")), ("query", A("c"))])
    add("evidence-on-derived-atom",
        [("ad", [("p1", A("a"))], []), ("ad", [("p2", A("b"))], []), ("ad", [("p3", A("c"))], []),
         ("rule", A("d"), [P(A("a")), P(A("b"))]), ("rule", A("d"), [P(A("c"))]),
         ("evidence", A("d"), True), ("query", A("a")), ("query", A("c"))])
    add("negative-evidence-derived",
        [("ad", [("p1", A("a"))], []), ("ad", [("p2", A("b"))], []),
         ("rule", A("d"), [P(A("a")), P(A("b"))]),
         ("evidence", A("d"), False), ("query", A("a")), ("query", A("b"))])
    add("nonground-query-dom",
        [("fact", A("dom", "a")), ("fact", A("dom", "b")), ("fact", A("dom", "c")),
         ("fact", A("w", "a", "p1")), ("fact", A("w", "b", "p2")),
         ("ad", [("P", A("f", "X"))], [P(A("w", "X", "P"))]),
         ("rule", A("g", "X"), [P(A("dom", "X")), N(A("f", "X"))]),
         ("query", A("g", "X")), ("query", A("f", "X"))])
    add("inconsistent-evidence",
        [("ad", [("p1", A("a"))], []), ("rule", A("b"), [P(A("a"))]),
         ("evidence", A("a"), False), ("evidence", A("b"), True), ("query", A("a"))])
    add("query-undefined-instance",
        [("ad", [("p1", A("f", "a"))], []), ("fact", A("dom", "a")), ("fact", A("dom", "b")),
         ("rule", A("g", "X"), [P(A("dom", "X")), P(A("f", "X"))]),
         ("query", A("g", "X"))])
    add("ad-with-deterministic-and-evidence",
        [("ad", [("p1", A("a")), ("p2", A("b"))], []), ("ad", [("p3", A("c"))], []),
         ("rule", A("d"), [P(A("a")), P(A("c"))]), ("rule", A("d"), [P(A("b")), N(A("c"))]),
         ("evidence", A("a"), False), ("query", A("d")), ("query", A("b"))])
    add("same-head-two-ads",
        [("ad", [("p1", A("h")), ("p2", A("k"))], []), ("ad", [("p3", A("h")), ("p4", A("m"))], []),
         ("query", A("h")), ("query", A("k")), ("query", A("m"))])
    add("recursion-through-ad",
        [("fact", A("w", "a", "b", "p1", "p2")), ("fact", A("w", "b", "a", "p3", "p4")),
         ("ad", [("P1", A("go", "X", "Y")), ("P2", A("stay", "X", "Y"))], [P(A("w", "X", "Y", "P1", "P2")), P(A("at", "X"))]),
         ("ad", [("p5", A("at", "a"))], []),
         ("rule", A("at", "Y"), [P(A("go", "X", "Y"))]),
         ("query", A("at", "b")), ("query", A("stay", "b", "a"))])
    # round 2: minimal shapes of the defects repaired by the fix: commits b9246d5 / f587857, kept
    # in the corpus so that every seed covers them
    add("cycle-first-proof-false",
        [("ad", [("p1", A("f"))], []),
         ("rule", A("r"), [P(A("f")), N(A("f"))]), ("rule", A("r"), [P(A("r")), P(A("f"))]),
         ("rule", A("r"), [P(A("f"))]), ("query", A("r"))])
    add("repeated-false-proof-nonground",
        [("fact", A("dom", "a")), ("fact", A("dom", "b")),
         ("fact", A("w", "a", "p1")), ("fact", A("w", "b", "p2")),
         ("ad", [("P", A("u", "X"))], [P(A("w", "X", "P"))]),
         ("rule", A("r"), [P(A("dom", "X")), P(A("u", "X")), N(A("u", "X"))]),
         ("rule", A("s"), [P(A("dom", "X")), P(A("u", "X"))]),
         ("query", A("r")), ("query", A("s"))])
    add("existential-body-variable-in-probabilistic-clause",
        [("fact", A("w", "a", "a", "p1")), ("fact", A("w", "a", "b", "p2")), ("fact", A("w", "b", "b", "p3")),
         ("ad", [("P", A("h", "X"))], [P(A("w", "X", "Y", "P"))]),
         ("ad", [("p4", A("r"))], []), ("ad", [("p5", A("r"))], []),
         ("rule", A("s"), [P(A("h", "a")), P(A("r"))]),
         ("query", A("h", "X")), ("query", A("r")), ("query", A("s"))])
    add("failed-proof-then-nonground-loop",
        [("ad", [("p1", A("f"))], []), ("ad", [("p2", A("h"))], []), ("ad", [("p3", A("g"))], []),
         ("rule", A("r", "a"), [P(A("f")), N(A("f"))]), ("rule", A("r", "b"), [P(A("g"))]),
         ("rule", A("r", "a"), [P(A("r", "Z")), P(A("h"))]),
         ("query", A("r", "a")), ("query", A("r", "X"))])
    add("repeated-variable-call-then-ground-call",
        # the call r2(X,X) meets the head r2(a,Y): the artifact answer (a,b) must not be tabled as the answer of r2(a,b)
        [("fact", A("dom", "a")), ("fact", A("dom", "b")),
         ("ad", [("p1", A("c", "a"))], []), ("ad", [("p2", A("c", "b"))], []),
         ("ad", [("p3", A("d", "a"))], []), ("ad", [("p4", A("d", "b"))], []),
         ("rule", A("r2", "a", "Y"), [P(A("c", "Y")), P(A("d", "Y"))]),
         ("rule", A("r2", "X", "Y"), [P(A("c", "Y")), P(A("dom", "X"))]),
         ("rule", A("r3"), [P(A("r2", "X", "X")), P(A("r2", "a", "X"))]),
         ("query", A("r3")), ("query", A("r2", "X", "Y"))])
    add("deterministic-true-queries-under-evidence",
        [("fact", A("dom", "a")), ("fact", A("dom", "b")), ("fact", A("t")),
         ("ad", [("p1", A("a"))], []), ("ad", [("p2", A("b"))], []),
         ("rule", A("c"), [P(A("a"))]), ("rule", A("c"), [P(A("b"))]),
         ("rule", A("u"), [P(A("dom", "a")), P(A("t"))]),
         ("evidence", A("c"), True),
         ("query", A("t")), ("query", A("u")), ("query", A("dom", "X")), ("query", A("a"))])
    add("deterministic-query-next-to-fact",
        [("fact", A("dom", "a")), ("ad", [("p1", A("f"))], []),
         ("rule", A("r1", "X"), [P(A("dom", "X"))]), ("rule", A("r2"), [P(A("f"))]),
         ("query", A("r1", "X")), ("query", A("r2"))])
    return C


# ---------------------------------------------------------------------------------------
# seeded generator

class Gen(object):
    def __init__(self, rng, max_choices=8, negation=True, recursion=True, evidence=True,
                 ads=True, nonground=True, consts=("a", "b")):
        self.r = rng
        self.max_choices = max_choices
        self.negation = negation
        self.recursion = recursion
        self.evidence = evidence
        self.ads = ads
        self.nonground = nonground
        self.consts = list(consts)
        self.np = 0
        self.nw = 0
        self.prog = []
        self.choices = 0
        self.base = []    # (pred, arity) usable in bodies, stratum 0
        self.groups = []  # lists of params of one AD instance

    def newp(self):
        self.np += 1
        return "p%d" % self.np

    def gen_base(self):
        r = self.r
        self.prog += [("fact", A("dom", c)) for c in self.consts]
        self.base.append(("dom", 1))
        n_items = r.randint(2, 4)
        for i in range(n_items):
            if self.choices >= self.max_choices:
                break
            kind = r.choice(["f0", "f0", "f1", "e2", "ad0", "ad1", "adb"])
            if kind == "f0":
                p = self.newp()
                name = "f%d" % i
                self.prog.append(("ad", [(p, A(name))], []))
                self.base.append((name, 0))
                self.choices += 1
                self.groups.append([p])
            elif kind == "f1" and self.nonground:
                name = "u%d" % i
                self.nw += 1
                w = "w%d" % self.nw
                cs = [c for c in self.consts if r.random() < 0.8] or [self.consts[0]]
                for c in cs:
                    p = self.newp()
                    self.prog.append(("fact", A(w, c, p)))
                    self.choices += 1
                    self.groups.append([p])
                self.prog.append(("ad", [("P", A(name, "X"))], [P(A(w, "X", "P"))]))
                self.base.append((name, 1))
            elif kind == "e2" and self.nonground:
                name = "e%d" % i
                self.nw += 1
                w = "w%d" % self.nw
                pairs = [(x, y) for x in self.consts for y in self.consts if r.random() < 0.6]
                pairs = pairs[:max(1, self.max_choices - self.choices)]
                if not pairs:
                    pairs = [(self.consts[0], self.consts[-1])]
                for x, y in pairs:
                    p = self.newp()
                    self.prog.append(("fact", A(w, x, y, p)))
                    self.choices += 1
                    self.groups.append([p])
                self.prog.append(("ad", [("P", A(name, "X", "Y"))], [P(A(w, "X", "Y", "P"))]))
                self.base.append((name, 2))
            elif kind == "ad0" and self.ads:
                k = r.randint(2, 3)
                ps = [self.newp() for _ in range(k)]
                names = ["a%d_%d" % (i, j) for j in range(k)]
                body = []
                if self.base and r.random() < 0.4:
                    b = self.pick_lit(self.base, [], allow_neg=False, ground=True)
                    if b:
                        body = [b]
                self.prog.append(("ad", list(zip(ps, [A(n) for n in names])), body))
                for n in names:
                    self.base.append((n, 0))
                self.choices += 1
                self.groups.append(ps)
            elif kind in ("ad1", "adb") and self.ads and self.nonground:
                k = 2
                self.nw += 1
                w = "w%d" % self.nw
                names = ["c%d_%d" % (i, j) for j in range(k)]
                cs = [c for c in self.consts if r.random() < 0.8] or [self.consts[0]]
                for c in cs:
                    ps = [self.newp() for _ in range(k)]
                    self.prog.append(("fact", A(w, c, *ps)))
                    self.choices += 1
                    self.groups.append(ps)
                body = [P(A(w, "X", "P1", "P2"))]
                if kind == "adb" and len(self.base) > 1:
                    b = self.pick_lit([b for b in self.base if b[0] != "dom"], ["X"], allow_neg=False,
                                      only_vars=True)
                    if b:
                        body.append(b)
                self.prog.append(("ad", [("P1", A(names[0], "X")), ("P2", A(names[1], "X"))], body))
                for n in names:
                    self.base.append((n, 1))

    def pick_lit(self, preds, vars_, allow_neg, ground=False, only_vars=False):
        r = self.r
        if not preds:
            return None
        pred, ar = r.choice(preds)
        args = []
        for _ in range(ar):
            if ground or (r.random() < 0.25):
                args.append(r.choice(self.consts))
            else:
                pool = vars_ + (["X", "Y", "Z"][:max(1, len(vars_) + 1)])
                if only_vars:
                    pool = vars_ or list(self.consts)
                args.append(r.choice(pool))
        a = A(pred, *args)
        neg = allow_neg and self.negation and r.random() < 0.3
        return (a, neg)

    def gen_rules(self):
        r = self.r
        strata = [list(self.base)]
        n_strata = r.randint(1, 3)
        ri = 0
        for s in range(n_strata):
            lower = [p for st in strata for p in st]
            new = []
            n_preds = r.randint(1, 2)
            for _ in range(n_preds):
                ri += 1
                ar = r.choice([0, 0, 1, 1, 2])
                name = "r%d" % ri
                new.append((name, ar))
            for (name, ar) in new:
                n_cl = r.randint(1, 3)
                for _ in range(n_cl):
                    hv = ["X", "Y"][:ar]
                    head_args = [v if r.random() < 0.85 else r.choice(self.consts) for v in hv]
                    body = []
                    n_b = r.randint(1, 3)
                    for _ in range(n_b):
                        # positive literals may refer to the same stratum (recursion)
                        pool = lower + (new if self.recursion and r.random() < 0.35 else [])
                        l = self.pick_lit(pool, [v for v in head_args if is_var(v)], allow_neg=False)
                        if l and (l[0][0], len(l[0][1])) in new and not self.recursion:
                            continue
                        if l:
                            body.append(l)
                    if self.negation and r.random() < 0.4:
                        l = self.pick_lit([p for p in lower if p[0] != "dom"] or lower,
                                          [v for v in head_args if is_var(v)], allow_neg=True)
                        if l:
                            body.append((l[0], True))
                    body = self.make_safe(head_args, body)
                    self.prog.append(("rule", A(name, *head_args), body))
            strata.append(new)
        self.strata = strata

    def make_safe(self, head_args, body):
        """Range restriction: every variable must occur in a positive literal; negative
        literals go last (after their binders)."""
        pos = [l for l in body if not l[1]]
        neg = [l for l in body if l[1]]
        bound = set(v for l in pos for v in l[0][1] if is_var(v))
        need = set(v for v in head_args if is_var(v)) | set(v for l in neg for v in l[0][1] if is_var(v))
        for v in sorted(need - bound):
            pos.append(P(A("dom", v)))
        if not pos and not neg:
            pos.append(P(A("dom", self.consts[0])))
        return pos + neg

    def gen_queries(self):
        r = self.r
        allp = [p for st in self.strata for p in st if p[0] != "dom"]
        derived = [p for st in self.strata[1:] for p in st] or allp
        nq = r.randint(1, 3)
        used = set()
        for _ in range(nq):
            pred, ar = r.choice(derived if r.random() < 0.7 else allp)
            args = [r.choice(self.consts) if r.random() < 0.5 else v for v in ["X", "Y"][:ar]]
            a = A(pred, *args)
            if a not in used:
                used.add(a)
                self.prog.append(("query", a))
        if r.random() < 0.15:
            q = A("dom", r.choice(self.consts + ["X"]))
            if q not in used:
                used.add(q)
                self.prog.append(("query", q))
        if self.evidence and r.random() < 0.6:
            ne = r.randint(1, 2)
            for _ in range(ne):
                pred, ar = r.choice(allp)
                args = [r.choice(self.consts) for _ in range(ar)]
                a = A(pred, *args)
                if a in used:
                    continue
                used.add(a)
                self.prog.append(("evidence", a, r.random() < 0.5))

    def generate(self):
        self.gen_base()
        self.gen_rules()
        self.gen_queries()
        return self.prog


def graph_program(rng, n=None):
    """Probabilistic graph reachability (the classic cyclic ProbLog program)."""
    variant = rng.randrange(4)
    nodes = ["a", "b", "c", "d"][: (n or (3 if variant == 2 else rng.randint(3, 4)))]
    prog = []
    k = 0
    edges = []
    for x in nodes:
        for y in nodes:
            if x != y and rng.random() < 0.6:
                k += 1
                edges.append((x, y))
                prog.append(("fact", A("w", x, y, "p%d" % k)))
    if not edges:
        prog.append(("fact", A("w", nodes[0], nodes[1], "p1")))
        edges.append((nodes[0], nodes[1]))
    prog.append(("ad", [("P", A("e", "X", "Y"))], [P(A("w", "X", "Y", "P"))]))
    prog.append(("rule", A("path", "X", "Y"), [P(A("e", "X", "Y"))]))
    if variant == 0:
        prog.append(("rule", A("path", "X", "Y"), [P(A("e", "X", "Z")), P(A("path", "Z", "Y"))]))
    elif variant == 1:
        prog.append(("rule", A("path", "X", "Y"), [P(A("path", "X", "Z")), P(A("e", "Z", "Y"))]))
    elif variant == 2:
        prog.append(("rule", A("path", "X", "Y"), [P(A("path", "X", "Z")), P(A("path", "Z", "Y"))]))
    else:
        prog.append(("rule", A("path", "X", "Y"), [P(A("e", "Y", "X"))]))
        prog.append(("rule", A("path", "X", "Y"), [P(A("e", "X", "Z")), P(A("path", "Z", "Y"))]))
    for x in nodes:
        prog.append(("fact", A("dom", x)))
    if rng.random() < 0.4:
        prog.append(("rule", A("unreach", "X", "Y"), [P(A("dom", "X")), P(A("dom", "Y")), N(A("path", "X", "Y"))]))
        prog.append(("query", A("unreach", rng.choice(nodes), rng.choice(nodes))))
    for _ in range(rng.randint(1, 3)):
        x, y = rng.choice(nodes), rng.choice(nodes)
        q = ("query", A("path", x, y))
        if q not in prog:
            prog.append(q)
    if rng.random() < 0.3:
        prog.append(("query", A("path", rng.choice(nodes), "Y")))
    if rng.random() < 0.4:
        x, y = rng.choice(nodes), rng.choice(nodes)
        if ("query", A("path", x, y)) not in prog:
            prog.append(("evidence", A("path", x, y), rng.random() < 0.5))
    return prog


def cyclic_prop_program(rng):
    """Dense positive cycles among propositional atoms, several queries (cycle breaking reuse shapes)."""
    dense = rng.random() < 0.6
    det = rng.random() < 0.4
    nf = rng.randint(2, 4 if dense else 5)
    facts = [A("f%d" % i) for i in range(nf)]
    prog = [("ad", [("p%d" % (i + 1), facts[i])], []) for i in range(nf)]
    nd = rng.randint(4, 6) if dense else rng.randint(3, 5)
    ders = [A("d%d" % i) for i in range(nd)]
    for d in ders:
        for _ in range(rng.randint(2, 4) if dense else rng.randint(1, 3)):
            body = []
            for _ in range(rng.randint(1, 2)):
                x = rng.random()
                if x < 0.6:
                    body.append(P(rng.choice(ders)))
                elif x < 0.93 or not det:
                    body.append((rng.choice(facts), (not dense) and rng.random() < 0.15))
                else:
                    body.append(P(A("t")))
            body = [l for l in body if not l[1]] + [l for l in body if l[1]]
            prog.append(("rule", d, body))
    if det:
        prog.append(("fact", A("t")))
    qs = list(ders)
    rng.shuffle(qs)
    for q in qs[: (nd if dense else rng.randint(2, nd))]:
        prog.append(("query", q))
    if not dense and rng.random() < 0.3:
        rest = [d for d in ders if ("query", d) not in prog] or [rng.choice(facts)]
        prog.append(("evidence", rng.choice(rest), rng.random() < 0.6))
    return prog


def generate(seed, idx, **kw):
    rng0 = random.Random("%s/%s/family" % (seed, idx))
    if kw.pop("graphs", True) and rng0.random() < 0.2:
        return graph_program(rng0)
    rng = random.Random("%s/%s" % (seed, idx))
    kw.setdefault("max_choices", 8)
    if "consts" not in kw:
        kw["consts"] = ("a", "b") if rng.random() < 0.7 else ("a", "b", "c")
    g = Gen(rng, **kw)
    prog = g.generate()
    return prog


def collapse_params(prog, const="0.25"):
    """Replace every parameter p<k> by the same numeric constant: distinct ground choices then carry
    identical probabilities (and, after grounding, possibly identical clause texts)."""
    def sub(x):
        return const if (x[:1] == "p" and x[1:].isdigit()) else x
    out = []
    for s in prog:
        if s[0] == "ad":
            out.append(("ad", [(sub(p), a) for p, a in s[1]], s[2]))
        elif s[0] == "fact":
            out.append(("fact", (s[1][0], tuple(sub(a) for a in s[1][1]))))
        else:
            out.append(s)
    return out


def ad_groups_of(prog):
    """Parameter groups (lists of parameter names belonging to one ground AD instance)."""
    groups = []
    wfacts = {}
    for s in prog:
        if s[0] == "fact":
            ps = [a for a in s[1][1] if a[:1] == "p" and a[1:].isdigit()]
            if ps:
                wfacts.setdefault(s[1][0], []).append(ps)
    for s in prog:
        if s[0] == "ad":
            probs = [p for p, _ in s[1]]
            if all(not is_var(p) for p in probs):
                groups.append([p for p in probs if p[:1] == "p"])
            else:
                for l in s[2]:
                    (pred, args), neg = l
                    if pred in wfacts and any(is_var(p) and p in args for p in probs):
                        idxs = [args.index(p) for p in probs if p in args]
                        # positions of the probability variables inside the w-fact
                        for s2 in prog:
                            if s2[0] == "fact" and s2[1][0] == pred:
                                groups.append([s2[1][1][i] for i in idxs])
    return [g for g in groups if g]


def negcycle_program(rng):
    """Small propositional/unary programs with predicate-level loops through negation, mixed
    with probabilistic guards, positive recursion, evidence.  Classified by the reference."""
    nf = rng.randint(1, 3)
    prog = []
    facts = []
    for i in range(nf):
        facts.append(A("f%d" % (i + 1)))
        prog.append(("ad", [("p%d" % (i + 1), facts[-1])], []))
    unary = rng.random() < 0.35
    names = ["a", "b", "c", "d"][: rng.randint(2, 4)]
    if unary:
        prog += [("fact", A("dom", "x")), ("fact", A("dom", "y"))]

    def atom(n, var=True):
        if not unary:
            return A(n)
        return A(n, "X" if var and rng.random() < 0.7 else rng.choice(["x", "y"]))

    for n in names:
        for _ in range(rng.randint(1, 2)):
            head = atom(n)
            body = []
            for _ in range(rng.randint(1, 3)):
                if rng.random() < 0.4:
                    body.append((rng.choice(facts), rng.random() < 0.25))
                else:
                    body.append((atom(rng.choice(names)), rng.random() < 0.5))
            if unary:
                vs = set(v for l in body + [(head, False)] for v in l[0][1] if is_var(v))
                pos = [l for l in body if not l[1]]
                bound = set(v for l in pos for v in l[0][1] if is_var(v))
                body = [l for l in body if not l[1]] + [P(A("dom", v)) for v in sorted(vs - bound)] + \
                       [l for l in body if l[1]]
            else:
                body = [l for l in body if not l[1]] + [l for l in body if l[1]]
            prog.append(("rule", head, body))
    for _ in range(rng.randint(1, 2)):
        q = atom(rng.choice(names), var=rng.random() < 0.3)
        if ("query", q) not in prog:
            prog.append(("query", q))
    if rng.random() < 0.4:
        e = rng.choice(facts) if rng.random() < 0.6 else atom(rng.choice(names), var=False)
        if ("query", e) not in prog:
            prog.append(("evidence", e, rng.random() < 0.5))
    return prog


def negcycle_under_recursion(rng):
    """A loop through negation that is entered while a positive recursion above it is still open:
    r (recursive, queried) -> ... -> p, where p depends on its own negation and may have another proof."""
    nf = rng.randint(2, 3)
    facts = [A("f%d" % (i + 1)) for i in range(nf)]
    prog = [("ad", [("p%d" % (i + 1), facts[i])], []) for i in range(nf)]
    F = lambda: P(rng.choice(facts))
    r_cl = [("rule", A("r"), [P(A("r")), F()])]
    if rng.random() < 0.5:
        r_cl.append(("rule", A("r"), [P(A("s"))]))
        r_cl.append(("rule", A("s"), [P(A("r")), F()]) if rng.random() < 0.6 else ("rule", A("s"), [P(A("p"))]))
    r_cl.append(("rule", A("r"), [P(A("p"))] + ([F()] if rng.random() < 0.3 else [])))
    if rng.random() < 0.3:
        r_cl.append(("rule", A("r"), [F()]))
    p_cl = []
    if rng.random() < 0.8:
        p_cl.append(("rule", A("p"), [F()]))
    mode = rng.randrange(3)
    if mode == 0:
        p_cl.append(("rule", A("p"), ([F()] if rng.random() < 0.3 else []) + [N(A("p"))]))
    elif mode == 1:
        p_cl.append(("rule", A("p"), [N(A("q"))]))
        p_cl.append(("rule", A("q"), [P(A("p"))] if rng.random() < 0.5 else [N(A("p")), F()][::-1]))
    else:
        p_cl.append(("rule", A("p"), [P(A("q"))]))
        p_cl.append(("rule", A("q"), [F(), N(A("p"))]))
    if rng.random() < 0.5:
        rng.shuffle(r_cl)
    if rng.random() < 0.5:
        rng.shuffle(p_cl)
    prog += r_cl + p_cl
    for cl in prog:
        if cl[0] == "rule":
            cl[2].sort(key=lambda l: l[1])
    qs = [A("r")] + ([A("p")] if rng.random() < 0.3 else [])
    if rng.random() < 0.2:
        qs.reverse()
    for q in qs:
        prog.append(("query", q))
    return prog


def negcycle_nested_positive(rng):
    """A negated goal whose own definition lies on a positive cycle that calls back the goal above the negation, while
    that goal is itself the root of an open positive cycle and has another proof:
        r :- x. x :- r. r :- a. r :- \\+p.   p :- q. q :- p. p :- b. q :- r.
    (propositional, or the same over a two-element domain linked by e/2)."""
    prog = [("ad", [("p1", A("fa"))], []), ("ad", [("p2", A("fb"))], [])]
    if rng.random() < 0.5:
        r_cl = [("rule", A("r"), [P(A("x"))]), ("rule", A("r"), [P(A("fa"))]), ("rule", A("r"), [N(A("p"))])]
        x_cl = [("rule", A("x"), [P(A("r"))])]
        p_cl = [("rule", A("p"), [P(A("q"))])]
        if rng.random() < 0.7:
            p_cl.append(("rule", A("p"), [P(A("fb"))]))
        q_cl = [("rule", A("q"), [P(A("p"))]), ("rule", A("q"), [P(A("r"))])]
        if rng.random() < 0.3:
            q_cl.reverse()
        if rng.random() < 0.3:
            rng.shuffle(r_cl)
        if rng.random() < 0.3:
            rng.shuffle(p_cl)
        prog += r_cl + x_cl + p_cl + q_cl
        prog.append(("query", A("r")))
        if rng.random() < 0.3:
            prog.append(("query", A("p")))
    else:
        prog = [("ad", [("p1", A("f", "1"))], []), ("ad", [("p2", A("f", "2"))], []),
                ("fact", A("e", "1", "2")), ("fact", A("e", "2", "1"))]
        mutual = rng.random() < 0.5
        r_cl = [("rule", A("r", "X"), [P(A("e", "X", "Y")), P(A("s" if mutual else "r", "Y"))]),
                ("rule", A("r", "X"), [P(A("f", "X"))]),
                ("rule", A("r", "X"), [P(A("e", "X", "Y")), N(A("p", "X"))] if rng.random() < 0.3 else [P(A("e", "X", "_")), N(A("p", "X"))])]
        r_cl[2] = ("rule", A("r", "X"), [P(A("e", "X", "Y")), N(A("p", "X"))])
        if rng.random() < 0.3:
            r_cl[0], r_cl[1] = r_cl[1], r_cl[0]
        prog += r_cl
        if mutual:
            prog.append(("rule", A("s", "X"), [P(A("e", "X", "Y")), P(A("r", "Y"))]))
            prog += [("rule", A("p", "X"), [P(A("q", "X"))]), ("rule", A("q", "X"), [P(A("p", "X"))]),
                     ("rule", A("q", "X"), [P(A("r", "X"))])]
        else:
            prog += [("rule", A("p", "X"), [P(A("e", "X", "Y")), P(A("p", "Y"))]), ("rule", A("p", "X"), [P(A("r", "X"))])]
        prog.append(("query", A("r", rng.choice(["1", "2", "X"]))))
    return prog

"""Concrete drivers of the real pipeline that keep every intermediate artifact."""
from problog.program import PrologString
from problog.engine import DefaultEngine
from problog.formula import LogicFormula, LogicDAG
from problog.cnf_formula import CNF
from problog.ddnnf_formula import DDNNF
from problog.cycles import break_cycles
from problog.cnf_formula import clarks_completion

from . import gen, symsem


def numeric_text(prog_or_text):
    """Program text with every parameter p<k> replaced by a concrete decimal (weights do not
    matter for structure-level validation)."""
    text = prog_or_text if isinstance(prog_or_text, str) else gen.program_text(prog_or_text)
    params = symsem.find_params(text)
    vals = {}
    for i, p in enumerate(params):
        vals[p] = [0.125, 0.25, 0.1875, 0.3125][i % 4]
    return symsem.substitute_params(text, vals)


def artifacts(text, propagate_evidence=False, upto="ddnnf", **kw):
    """Run the real transformations step by step. Returns dict with lf, dag, cnf, nnf."""
    out = {}
    lf = LogicFormula.create_from(PrologString(text), propagate_evidence=propagate_evidence, **kw)
    out["lf"] = lf
    if upto == "lf":
        return out
    dag = LogicDAG.create_from(lf, **kw)
    out["dag"] = dag
    if upto == "dag":
        return out
    cnf = CNF.create_from(dag, **kw)
    out["cnf"] = cnf
    if upto == "cnf":
        return out
    nnf = DDNNF.create_from(cnf, **kw)
    out["nnf"] = nnf
    return out

"""E2: independent reference semantics (distribution semantics) as SMT terms.

Shares no code with ProbLog.  Input: the generator's AST (vlib.gen).  Steps:
 1. naive bottom-up relevant grounding over the finite Herbrand universe;
 2. one Bool per ground head of a probabilistic clause instance, at-most-one per group;
 3. stratified least-model semantics, encoded functionally: SCCs of the ground dependency
    graph in topological order, positive SCCs by Kleene iteration unrolled |SCC| times;
 4. well-founded model by alternating fixpoint (for C02);
 5. reference probability polynomial by Shannon expansion over groups.
"""
import itertools
from fractions import Fraction

import z3

from .gen import is_var, atom_str


class NotStratified(Exception):
    pass


class Group(object):
    def __init__(self, gid, heads):
        self.gid = gid
        self.heads = heads  # list of (prob_str, boolvar_name)


class Ground(object):
    def __init__(self):
        self.atoms = set()          # ground atoms (pred, args)
        self.clauses = {}           # head atom -> list of (choice_name|None, [(atom, neg)])
        self.groups = []            # list of Group
        self.group_key = {}
        self.queries = []           # ground query atoms (expanded instances)
        self.query_patterns = []
        self.evidence = []          # (atom, bool)


def _match(pattern_args, ground_args, theta):
    th = dict(theta)
    for p, g in zip(pattern_args, ground_args):
        if is_var(p):
            if p == "_":
                continue
            if p in th:
                if th[p] != g:
                    return None
            else:
                th[p] = g
        elif p != g:
            return None
    return th


def _subst(atom, th):
    pred, args = atom
    return (pred, tuple(th.get(a, a) if is_var(a) else a for a in args))


def _joins(body_pos, facts_by_pred):
    """All substitutions making every positive literal a member of the fact set."""
    thetas = [{}]
    for (pred, args) in body_pos:
        new = []
        cands = facts_by_pred.get((pred, len(args)), ())
        for th in thetas:
            for g in cands:
                t2 = _match(args, g, th)
                if t2 is not None:
                    new.append(t2)
        thetas = new
        if not thetas:
            break
    return thetas


def ground(prog):
    """Relevant grounding. Returns Ground."""
    G = Ground()
    rules = []  # (kind, heads[(prob, atom)], body)
    for s in prog:
        if s[0] == "fact":
            rules.append(("det", [(None, s[1])], []))
        elif s[0] == "rule":
            rules.append(("det", [(None, s[1])], list(s[2])))
        elif s[0] == "ad":
            rules.append(("ad", list(s[1]), list(s[2])))
    # 1. over-approximation of derivable atoms (negation ignored, every choice possible)
    facts = {}
    changed = True
    while changed:
        changed = False
        for kind, heads, body in rules:
            pos = [a for a, neg in body if not neg]
            for th in _joins(pos, facts):
                for prob, h in heads:
                    g = _subst(h, th)
                    if any(is_var(x) for x in g[1]):
                        raise ValueError("not range restricted: %s" % atom_str(h))
                    key = (g[0], len(g[1]))
                    if g[1] not in facts.setdefault(key, set()):
                        facts[key].add(g[1])
                        changed = True
    # 2. ground clause instances
    for ci, (kind, heads, body) in enumerate(rules):
        pos = [a for a, neg in body if not neg]
        seen = set()
        for th in _joins(pos, facts):
            key = tuple(sorted(th.items()))
            if key in seen:
                continue
            seen.add(key)
            gbody = []
            for a, neg in body:
                ga = _subst(a, th)
                if any(is_var(x) for x in ga[1]):
                    raise ValueError("unbound variable in negative literal %s" % atom_str(a))
                if neg and ga[1] not in facts.get((ga[0], len(ga[1])), ()):
                    continue  # \+ of an underivable atom is true
                gbody.append((ga, neg))
            if kind == "det":
                h = _subst(heads[0][1], th)
                G.clauses.setdefault(h, []).append((None, gbody))
            else:
                gid = len(G.groups)
                gheads = []
                for hi, (prob, h) in enumerate(heads):
                    pr = th.get(prob, prob) if is_var(prob) else prob
                    if pr[:1] == "p" and pr[1:].isdigit():
                        bname = "x" + pr[1:]
                    else:
                        bname = "xc%d_%d_%d" % (ci, gid, hi)
                    gheads.append((pr, bname))
                    gh = _subst(h, th)
                    G.clauses.setdefault(gh, []).append((bname, gbody))
                G.groups.append(Group(gid, gheads))
    names = [b for g in G.groups for _, b in g.heads]
    if len(names) != len(set(names)):
        raise ValueError("a parameter is shared by two ground choice instances (skeleton outside "
                         "the supported fragment)")
    for key, s in facts.items():
        for args in s:
            G.atoms.add((key[0], args))
    # queries / evidence
    for s in prog:
        if s[0] == "query":
            G.query_patterns.append(s[1])
        elif s[0] == "evidence":
            G.evidence.append((s[1], s[2]))
    G.facts = facts
    return G


def query_instances(G, pattern):
    """Ground instances of a query pattern that are possibly derivable."""
    out = []
    for g in sorted(G.facts.get((pattern[0], len(pattern[1])), ())):
        if _match(pattern[1], g, {}) is not None:
            out.append((pattern[0], g))
    return out


# ---------------------------------------------------------------------------------------
# dependency graph / SCCs

def sccs(G):
    """Tarjan SCCs in topological (dependencies first) order, over atoms with clauses."""
    nodes = sorted(G.atoms)
    succ = {}
    for a in nodes:
        s = set()
        for ch, body in G.clauses.get(a, []):
            for b, neg in body:
                s.add(b)
        succ[a] = s
    index = {}
    low = {}
    onstack = set()
    stack = []
    out = []
    counter = [0]

    import sys
    sys.setrecursionlimit(max(10000, sys.getrecursionlimit()))

    def strong(v):
        index[v] = low[v] = counter[0]
        counter[0] += 1
        stack.append(v)
        onstack.add(v)
        for w in succ.get(v, ()):
            if w not in index:
                if w in succ:
                    strong(w)
                    low[v] = min(low[v], low[w])
            elif w in onstack:
                low[v] = min(low[v], index[w])
        if low[v] == index[v]:
            comp = []
            while True:
                w = stack.pop()
                onstack.discard(w)
                comp.append(w)
                if w == v:
                    break
            out.append(comp)

    for v in nodes:
        if v not in index:
            strong(v)
    return out


def negative_cycle_atoms(G):
    """Atoms lying in an SCC that contains a negative edge (full ground dependency graph)."""
    bad = set()
    for comp in sccs(G):
        cs = set(comp)
        for a in comp:
            for ch, body in G.clauses.get(a, []):
                for b, neg in body:
                    if neg and b in cs:
                        bad |= cs
    return bad


# ---------------------------------------------------------------------------------------
# semantics over an arbitrary Boolean algebra

class Z3Alg(object):
    T = z3.BoolVal(True)
    F = z3.BoolVal(False)

    @staticmethod
    def var(name):
        return z3.Bool(name)

    @staticmethod
    def and_(xs):
        xs = list(xs)
        return z3.And(*xs) if xs else z3.BoolVal(True)

    @staticmethod
    def or_(xs):
        xs = list(xs)
        return z3.Or(*xs) if xs else z3.BoolVal(False)

    @staticmethod
    def not_(x):
        return z3.Not(x)


class PyAlg(object):
    T = True
    F = False

    def __init__(self, world):
        self.world = world

    def var(self, name):
        return bool(self.world.get(name, False))

    @staticmethod
    def and_(xs):
        return all(xs)

    @staticmethod
    def or_(xs):
        return any(xs)

    @staticmethod
    def not_(x):
        return not x


def semantics(G, alg, allow_negcycle=False):
    """dict ground atom -> value in alg (stratified least model as a function of choices)."""
    val = {}
    for comp in sccs(G):
        cs = set(comp)
        internal_neg = False
        internal_pos = False
        for a in comp:
            for ch, body in G.clauses.get(a, []):
                for b, neg in body:
                    if b in cs:
                        if neg:
                            internal_neg = True
                        else:
                            internal_pos = True
        if internal_neg:
            if not allow_negcycle:
                raise NotStratified(atom_str(comp[0]))
            for a in comp:
                val[a] = None
            continue

        def ev(a, cur):
            alts = []
            for ch, body in G.clauses.get(a, []):
                parts = []
                if ch is not None:
                    parts.append(alg.var(ch))
                dead = False
                for b, neg in body:
                    v = cur[b] if b in cs else val.get(b, alg.F)
                    if v is None:
                        raise NotStratified(atom_str(b))
                    parts.append(alg.not_(v) if neg else v)
                if not dead:
                    alts.append(alg.and_(parts))
            return alg.or_(alts)

        if not internal_pos:
            for a in comp:
                val[a] = ev(a, {})
        else:
            cur = dict((a, alg.F) for a in comp)
            for _ in range(len(comp)):
                cur = dict((a, ev(a, cur)) for a in comp)
            for a in comp:
                val[a] = cur[a]
    return val


def legal_constraints(G):
    """At most one head chosen per group (z3)."""
    cs = []
    for g in G.groups:
        vs = [z3.Bool(b) for _, b in g.heads]
        for i in range(len(vs)):
            for j in range(i + 1, len(vs)):
                cs.append(z3.Or(z3.Not(vs[i]), z3.Not(vs[j])))
    return cs


# ---------------------------------------------------------------------------------------
# well-founded model by alternating fixpoint, symbolic (z3) - for C02

def wfm_undefined(G, max_atoms=40):
    """dict atom -> z3 Bool 'atom is undefined in the WFM of the world x'.
    Alternating fixpoint: T_0 = lfp with all negative literals false (= under-estimate),
    U_k = lfp(P^{T_k}) (over-estimate), T_{k+1} = lfp(P^{U_k}); unrolled n+1 rounds."""
    atoms = sorted(a for a in G.atoms if a in G.clauses)
    n = len(atoms)
    if n > max_atoms:
        raise ValueError("too many atoms for the alternating fixpoint")
    F = z3.BoolVal(False)

    def lfp(negref):
        """least fixpoint of the positive program where \\+b is read as not negref[b]."""
        cur = dict((a, F) for a in atoms)
        for _ in range(n):
            nxt = {}
            for a in atoms:
                alts = []
                for ch, body in G.clauses.get(a, []):
                    parts = [z3.Bool(ch)] if ch is not None else []
                    for b, neg in body:
                        if neg:
                            parts.append(z3.Not(negref.get(b, F)))
                        else:
                            parts.append(cur.get(b, F))
                    alts.append(z3.And(*parts) if parts else z3.BoolVal(True))
                nxt[a] = z3.simplify(z3.Or(*alts)) if alts else F
            cur = nxt
        return cur

    # over-estimate first: negative literals all true  => negref = all false
    over = lfp(dict((a, F) for a in atoms))
    under = dict((a, F) for a in atoms)
    for _ in range(n + 1):
        under = lfp(over)
        over = lfp(under)
    return dict((a, z3.And(over[a], z3.Not(under[a]))) for a in atoms), under, over


# ---------------------------------------------------------------------------------------
# reference polynomial

def _prob_term(pr):
    if pr[:1] == "p" and pr[1:].isdigit():
        return z3.Real(pr)
    return z3.RealVal(str(Fraction(pr)))


def world_count(G):
    n = 1
    for g in G.groups:
        n *= len(g.heads) + 1
    return n


def truth_table(G, atoms_of_interest):
    """Concrete evaluation of the reference program in every legal world (mixed radix order)."""
    doms = [range(len(g.heads) + 1) for g in G.groups]
    atoms_of_interest = list(dict.fromkeys(atoms_of_interest))
    tables = dict((a, []) for a in atoms_of_interest)
    for combo in itertools.product(*doms):
        world = {}
        for g, c in zip(G.groups, combo):
            for i, (_, b) in enumerate(g.heads):
                world[b] = (c == i + 1)
        val = semantics(G, PyAlg(world))
        for a in atoms_of_interest:
            tables[a].append(bool(val.get(a, False)))
    return tables


def poly_of_table(G, table):
    """Shannon expansion of a truth table over the groups -> (z3 real polynomial, z3 Bool
    function as an ite-tree over the choice variables).  Memoised on sub-tables."""
    memo = {}
    sizes = [len(g.heads) + 1 for g in G.groups]

    def rec(gi, lo, hi):
        key = (gi, bytes(table[lo:hi]))
        if key in memo:
            return memo[key]
        if gi == len(sizes):
            r = (z3.RealVal(1), z3.BoolVal(True)) if table[lo] else (z3.RealVal(0), z3.BoolVal(False))
            memo[key] = r
            return r
        g = G.groups[gi]
        step = (hi - lo) // sizes[gi]
        subs = [rec(gi + 1, lo + k * step, lo + (k + 1) * step) for k in range(sizes[gi])]
        probs = [_prob_term(pr) for pr, _ in g.heads]
        none_p = 1 - z3.Sum(probs) if len(probs) > 1 else 1 - probs[0]
        poly = none_p * subs[0][0]
        for k, pr in enumerate(probs):
            poly = poly + pr * subs[k + 1][0]
        bvs = [z3.Bool(b) for _, b in g.heads]
        bfun = subs[0][1]
        for k in range(len(bvs) - 1, -1, -1):
            bfun = z3.If(bvs[k], subs[k + 1][1], bfun)
        r = (z3.simplify(poly), z3.simplify(bfun))
        memo[key] = r
        return r

    total = 1
    for s in sizes:
        total *= s
    assert len(table) == total
    return rec(0, 0, total)


def exact_probability(G, table, values):
    """Exact rational probability of a truth table at concrete parameter values."""
    doms = [range(len(g.heads) + 1) for g in G.groups]
    tot = Fraction(0)
    for idx, combo in enumerate(itertools.product(*doms)):
        if not table[idx]:
            continue
        w = Fraction(1)
        for g, c in zip(G.groups, combo):
            ps = [Fraction(values[pr]) if pr in values else Fraction(pr) for pr, _ in g.heads]
            w *= (1 - sum(ps)) if c == 0 else ps[c - 1]
        tot += w
    return tot


def full_graph_has_negative_cycle(prog, limit=50000):
    """Cycle through negation in the FULL ground dependency graph (every ground instance of every
    clause over the constants of the program - not goal directed, not restricted to derivable
    atoms), as the property states it.  Falls back to the (coarser, still conservative)
    predicate-level graph when the grounding would be too large."""
    consts = set()
    clauses = []
    for s in prog:
        if s[0] == "fact":
            clauses.append(([s[1]], []))
        elif s[0] == "rule":
            clauses.append(([s[1]], list(s[2])))
        elif s[0] == "ad":
            clauses.append(([a for _, a in s[1]], list(s[2])))
    for heads, body in clauses:
        for a in heads + [l[0] for l in body]:
            for x in a[1]:
                if not is_var(x):
                    consts.add(x)
    consts = sorted(consts) or ["c0"]
    edges = {}  # atom -> set of (atom, neg)
    total = 0
    for heads, body in clauses:
        vs = sorted(set(x for a in heads + [l[0] for l in body] for x in a[1] if is_var(x) and x != "_"))
        total += len(consts) ** len(vs)
    pred_level = total > limit
    for heads, body in clauses:
        vs = sorted(set(x for a in heads + [l[0] for l in body] for x in a[1] if is_var(x) and x != "_"))
        if pred_level:
            for h in heads:
                for b, neg in body:
                    edges.setdefault((h[0], len(h[1])), set()).add(((b[0], len(b[1])), neg))
            continue
        for combo in itertools.product(consts, repeat=len(vs)):
            th = dict(zip(vs, combo))
            for h in heads:
                gh = _subst(h, th)
                for b, neg in body:
                    edges.setdefault(gh, set()).add((_subst(b, th), neg))
    # SCCs (iterative Tarjan)
    nodes = set(edges)
    for v in list(edges):
        for w, _ in edges[v]:
            nodes.add(w)
    index, low, onst, stack, comps = {}, {}, set(), [], []
    cnt = [0]
    for root in sorted(nodes):
        if root in index:
            continue
        work = [(root, iter(sorted(w for w, _ in edges.get(root, ()))))]
        index[root] = low[root] = cnt[0]
        cnt[0] += 1
        stack.append(root)
        onst.add(root)
        while work:
            v, it = work[-1]
            adv = False
            for w in it:
                if w not in index:
                    index[w] = low[w] = cnt[0]
                    cnt[0] += 1
                    stack.append(w)
                    onst.add(w)
                    work.append((w, iter(sorted(x for x, _ in edges.get(w, ())))))
                    adv = True
                    break
                elif w in onst:
                    low[v] = min(low[v], index[w])
            if adv:
                continue
            work.pop()
            if work:
                low[work[-1][0]] = min(low[work[-1][0]], low[v])
            if low[v] == index[v]:
                comp = set()
                while True:
                    w = stack.pop()
                    onst.discard(w)
                    comp.add(w)
                    if w == v:
                        break
                comps.append(comp)
    for comp in comps:
        for v in comp:
            for w, neg in edges.get(v, ()):
                if neg and w in comp:
                    return True
    return False

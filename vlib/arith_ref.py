"""Reference semantics of Prolog arithmetic where Yap and SWI-Prolog agree (ISO core); NA where they
differ or the docs state a deviation.  Integer arithmetic only uses exact int operations so that it can be
executed symbolically.  Floats handed to the real code are dyadic: x = n/8 with n a (symbolic) int."""

NA = "n/a"      # nothing asserted
ERR = "error"   # a ProbLog error is required


def trunc_div(a, b):
    q = abs(a) // abs(b)
    return q if (a >= 0) == (b >= 0) else -q


def binop_int(op, a, b):
    if op == "+":
        return a + b
    if op == "-":
        return a - b
    if op == "*":
        return a * b
    if op == "//":
        return ERR if b == 0 else trunc_div(a, b)
    if op == "div":
        return ERR if b == 0 else a // b                      # floor
    if op == "mod":
        return ERR if b == 0 else a - b * (a // b)            # sign of the divisor
    if op == "rem":
        return ERR if b == 0 else NA                          # documented deviation (behaves like mod)
    if op == "/":
        return ERR if b == 0 else NA                          # int/int: Yap and SWI differ
    if op == "min":
        return a if a <= b else b
    if op == "max":
        return a if a >= b else b
    if op == "/\\":
        return a & b
    if op == "\\/":
        return a | b
    if op in ("xor", "#", "><"):
        return a ^ b
    if op == "<<":
        return NA if b < 0 else a * (2 ** b)
    if op == ">>":
        return NA if b < 0 else a // (2 ** b)
    if op == "^":
        return NA if b < 0 else a ** b
    if op == "**":
        return NA
    raise ValueError(op)


def unop_int(op, a):
    if op == "-":
        return -a
    if op == "+":
        return a
    if op == "\\":
        return -a - 1
    if op == "abs":
        return a if a >= 0 else -a
    if op == "sign":
        return 1 if a > 0 else (-1 if a < 0 else 0)
    if op in ("integer", "truncate", "round", "ceiling", "floor"):
        return a
    if op == "float":
        return ("float", a * 8)
    return NA


def round8(n):
    """n/8 rounded half away from zero"""
    return (n + 4) // 8 if n >= 0 else -((-n + 4) // 8)


def unop_dyadic(op, n):
    """op applied to the float n/8.  Float results are returned as ('float', m) meaning m/8."""
    if op == "-":
        return ("float", -n)
    if op == "+":
        return ("float", n)
    if op == "abs":
        return ("float", n if n >= 0 else -n)
    if op == "sign":
        return ("float", 8 if n > 0 else (-8 if n < 0 else 0))
    if op in ("integer", "round"):
        return round8(n)
    if op == "truncate":
        return trunc_div(n, 8)
    if op == "floor":
        return n // 8
    if op == "ceiling":
        return -((-n) // 8)
    if op == "float_integer_part":
        return ("float", trunc_div(n, 8) * 8)
    if op == "float_fractional_part":
        return ("float", n - trunc_div(n, 8) * 8)
    if op == "float":
        return ("float", n)
    return NA


def same_number(real, ref):
    """real: value returned by ProbLog; ref: int or ('float', m)."""
    if isinstance(ref, tuple):
        return isinstance(real, float) and real * 8 == ref[1]
    return isinstance(real, int) and not isinstance(real, bool) and real == ref

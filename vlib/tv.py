"""E3: translation validation of ProbLog's real artifacts by SAT.

Encoders from the real data structures (LogicFormula, LogicDAG, CNF, DDNNF, DIMACS text) to z3
Bool terms, regenerated on every run from the objects the real code returns.
"""
import time

import z3


class NegCycle(Exception):
    pass


def atom_var(identifier):
    return z3.Bool("a[%s]" % (identifier,))


def _formula_nodes(f):
    """index -> (type, children|identifier)."""
    nodes = {}
    for index, node, ntype in f:
        if ntype == "atom":
            nodes[index] = ("atom", node.identifier)
        else:
            nodes[index] = (ntype, tuple(node.children))
    return nodes


def _sccs(nodes):
    index = {}
    low = {}
    st = []
    on = set()
    out = []
    cnt = [0]
    import sys
    sys.setrecursionlimit(max(sys.getrecursionlimit(), 20000))

    def succ(v):
        t, ch = nodes[v]
        if t in ("atom", "const"):
            return ()
        return [abs(c) for c in ch if c is not None and c != 0]

    def strong(v):
        index[v] = low[v] = cnt[0]
        cnt[0] += 1
        st.append(v)
        on.add(v)
        for w in succ(v):
            if w not in index:
                strong(w)
                low[v] = min(low[v], low[w])
            elif w in on:
                low[v] = min(low[v], index[w])
        if low[v] == index[v]:
            comp = []
            while True:
                w = st.pop()
                on.discard(w)
                comp.append(w)
                if w == v:
                    break
            out.append(comp)

    for v in sorted(nodes):
        if v not in index:
            strong(v)
    return out


def encode_formula(f, avar=atom_var, evidence_values=None):
    """dict node index -> z3 Bool: least-model meaning of every node of a (possibly cyclic)
    ground program as a function of its atoms.  0 -> True, None -> False handled by lit()."""
    return encode_nodes(_formula_nodes(f), avar)


def encode_nodes(nodes, avar=atom_var):
    """Same, for a plain node table index -> ('atom', id) | ('const', bool) | ('conj'|'disj', children)."""
    val = {}
    T, F = z3.BoolVal(True), z3.BoolVal(False)

    def lit(c, cur):
        if c == 0:
            return T
        if c is None:
            return F
        v = cur[abs(c)] if abs(c) in cur else val[abs(c)]
        return z3.Not(v) if c < 0 else v

    for comp in _sccs(nodes):
        cs = set(comp)
        cyclic = len(comp) > 1
        for v in comp:
            t, ch = nodes[v]
            if t not in ("atom", "const"):
                for c in ch:
                    if c is not None and c != 0 and abs(c) in cs:
                        cyclic = True
                        if c < 0:
                            raise NegCycle("negative edge inside SCC at node %s" % v)

        def ev(v, cur):
            t, ch = nodes[v]
            if t == "atom":
                return avar(ch)
            if t == "const":
                return T if ch else F
            parts = [lit(c, cur) for c in ch]
            if t == "conj":
                return z3.And(*parts) if parts else T
            return z3.Or(*parts) if parts else F

        if not cyclic:
            for v in comp:
                val[v] = ev(v, {})
        else:
            cur = dict((v, F) for v in comp)
            for _ in range(len(comp)):
                cur = dict((v, ev(v, cur)) for v in comp)
            for v in comp:
                val[v] = cur[v]
    return val


def lit_of(val, key):
    if key == 0:
        return z3.BoolVal(True)
    if key is None:
        return z3.BoolVal(False)
    v = val[abs(key)]
    return z3.Not(v) if key < 0 else v


class Sat(object):
    """Incremental z3 front-end with timeout, timing and counts."""

    def __init__(self, timeout_ms=20000):
        self.s = z3.Solver()
        self.s.set("timeout", timeout_ms)
        self.solver_time = 0.0
        self.queries = 0

    def check(self, *conds):
        self.s.push()
        for c in conds:
            self.s.add(c)
        t = time.time()
        r = str(self.s.check())
        self.solver_time += time.time() - t
        self.queries += 1
        m = self.s.model() if r == "sat" else None
        self.s.pop()
        return r, m


def cnf_clauses(cnf, nvar=lambda i: z3.Bool("n%d" % i), with_constraints=True):
    """z3 clauses of the real CNF object (definition clauses and constraint clauses)."""
    defs, cons = [], []
    for c in cnf.clauses:
        head, body = c[0], c[1:]
        if head == "c":
            continue
        lits = []
        is_constraint = isinstance(head, bool) or head is None
        for l in (body if is_constraint else [head] + list(body)):
            lits.append(nvar(abs(l)) if l > 0 else z3.Not(nvar(abs(l))))
        (cons if is_constraint else defs).append(z3.Or(*lits) if lits else z3.BoolVal(False))
    return defs, cons


def dag_definitions(dag, nvar=lambda i: z3.Bool("n%d" % i)):
    """n_i <=> op(children) for every compound node of the acyclic program."""
    defs = []
    T, F = z3.BoolVal(True), z3.BoolVal(False)

    def lit(c):
        if c == 0:
            return T
        if c is None:
            return F
        return nvar(c) if c > 0 else z3.Not(nvar(-c))

    for index, node, ntype in dag:
        if ntype == "atom":
            continue
        parts = [lit(c) for c in node.children]
        if ntype == "conj":
            rhs = z3.And(*parts) if parts else T
        else:
            rhs = z3.Or(*parts) if parts else F
        defs.append(nvar(index) == rhs)
    return defs


def exactly_one(lits):
    cs = [z3.Or(*lits)]
    for i in range(len(lits)):
        for j in range(i + 1, len(lits)):
            cs.append(z3.Or(z3.Not(lits[i]), z3.Not(lits[j])))
    return z3.And(*cs)


def read_dimacs(text):
    """Independent DIMACS reader: (nvars, nclauses_declared, clauses as int lists)."""
    nv = nc = None
    clauses = []
    cur = []
    for line in text.split("\n"):
        line = line.strip()
        if not line or line[0] == "c":
            continue
        if line[0] == "p":
            parts = line.split()
            nv, nc = int(parts[2]), int(parts[3])
            continue
        for tok in line.split():
            v = int(tok)
            if v == 0:
                clauses.append(cur)
                cur = []
            else:
                cur.append(v)
    return nv, nc, clauses


def nnf_structure(nnf):
    """index -> (type, children/identifier), plus variable sets per node."""
    nodes = _formula_nodes(nnf)
    vs = {}

    def varset(i):
        if i is None or i == 0:
            return frozenset()
        i = abs(i)
        if i in vs:
            return vs[i]
        t, ch = nodes[i]
        if t == "atom":
            r = frozenset([ch])
        else:
            r = frozenset().union(*[varset(c) for c in ch]) if ch else frozenset()
        vs[i] = r
        return r

    for i in nodes:
        varset(i)
    return nodes, vs

"""E5 core: proxy values over z3 terms + a DFS path driver (tiny concolic executor).

The *real* function objects of /repo are executed on these proxies; every branch the real
code takes on a proxy goes through PathDriver.decide, which asks z3 whether the branch
condition is valid / unsatisfiable / both-ways-satisfiable under the region and the path
condition, and forks in the last case.

Floats are modelled as reals.  Tolerance constants of the code (1e-12, 1e-10, 1e-9 next to an
integer) are interpreted as an infinitesimal epsilon ("snap"): `1-1e-12 < v` means `v >= 1`.
This is stated as an assumption in every evidence file that uses this engine.
"""
import builtins
import time
from fractions import Fraction

import z3


class Unsupported(Exception):
    """A proxy was used in a way the engine cannot model -> obligation inconclusive."""


class Inconclusive(Exception):
    """Solver answered unknown / fork budget exceeded."""


CUR = None  # current PathDriver


def rv(x):
    """Exact z3 real for a python number."""
    if isinstance(x, bool):
        return z3.RealVal(int(x))
    if isinstance(x, int):
        return z3.RealVal(x)
    if isinstance(x, Fraction):
        return z3.RealVal(str(x))
    if isinstance(x, float):
        f = Fraction(x)
        # decimal literals such as 0.3 are meant exactly: use the shortest repr
        g = Fraction(repr(x))
        return z3.RealVal(str(g if float(g) == x else f))
    raise Unsupported("rv(%r)" % (x,))


def snap(c):
    """(k, side): constant c is integer k plus (side * infinitesimal)."""
    if isinstance(c, float):
        if c != c or c in (float("inf"), float("-inf")):
            raise Unsupported("non-finite constant")
        k = round(c)
        d = c - k
        if d != 0 and abs(d) < 1e-6:
            return k, (1 if d > 0 else -1)
    return c, 0


class PathDriver(object):
    def __init__(self, region=(), timeout_ms=10000, max_paths=32):
        self.region = list(region)
        self.timeout_ms = timeout_ms
        self.max_paths = max_paths
        self.solver_time = 0.0
        self.queries = 0
        self.params = {}
        self._reset_path([])

    def _reset_path(self, script):
        self.script = list(script)
        self.taken = []  # list of (cond, bool) for forks only
        self.pc = []
        self.solver = z3.Solver()
        self.solver.set("timeout", self.timeout_ms)
        for c in self.region:
            self.solver.add(c)
        self.sign_cache = {}

    # -- solver helpers ----------------------------------------------------
    def check(self, *conds):
        self.solver.push()
        for c in conds:
            self.solver.add(c)
        t = time.time()
        r = self.solver.check()
        self.solver_time += time.time() - t
        self.queries += 1
        self.solver.pop()
        return str(r)

    def valid(self, cond):
        r = self.check(z3.Not(cond))
        if r == "unknown":
            return None
        return r == "unsat"

    def decide(self, cond):
        if isinstance(cond, bool):
            return cond
        cond = z3.simplify(cond)
        if z3.is_true(cond):
            return True
        if z3.is_false(cond):
            return False
        r_t = self.check(cond)
        if r_t == "unsat":
            return False
        r_f = self.check(z3.Not(cond))
        if r_f == "unsat":
            return True
        if r_t == "unknown" or r_f == "unknown":
            raise Inconclusive("solver unknown on branch condition %s" % str(cond)[:200])
        # both satisfiable: fork
        idx = len(self.taken)
        if idx < len(self.script):
            choice = self.script[idx]
        else:
            choice = True
            self.pending.append([t for (_, t) in self.taken] + [False])
        self.taken.append((cond, choice))
        c = cond if choice else z3.Not(cond)
        self.pc.append(c)
        self.solver.add(c)
        return choice

    # -- exploration ---------------------------------------------------------
    def explore(self, fn):
        """Run fn() once per feasible path.  Returns list of (pc, kind, value) where kind is
        'ok' | 'exc'.  Raises Inconclusive if the path budget is exceeded."""
        global CUR
        self.pending = [[]]
        paths = []
        prev = CUR
        CUR = self
        try:
            while self.pending:
                script = self.pending.pop()
                if len(paths) >= self.max_paths:
                    raise Inconclusive("more than %d paths" % self.max_paths)
                self._reset_path(script)
                try:
                    val = fn()
                    kind = "ok"
                except (Unsupported, Inconclusive):
                    raise
                except Exception as e:  # the real code's own exceptions are outcomes
                    val = e
                    kind = "exc"
                paths.append((list(self.pc), kind, val))
        finally:
            CUR = prev
        return paths


def _decide(cond):
    if CUR is None:
        raise Unsupported("symbolic branch outside a PathDriver")
    return CUR.decide(cond)


class SymBool(object):
    __slots__ = ("e",)

    def __init__(self, e):
        self.e = e

    def __bool__(self):
        return _decide(self.e)

    def __invert__(self):
        return SymBool(z3.Not(self.e))

    def __and__(self, o):
        return SymBool(z3.And(self.e, o.e if isinstance(o, SymBool) else z3.BoolVal(bool(o))))

    def __or__(self, o):
        return SymBool(z3.Or(self.e, o.e if isinstance(o, SymBool) else z3.BoolVal(bool(o))))


def _sign_add(a, b):
    if a == "z":
        return b
    if b == "z":
        return a
    if a is None or b is None:
        return None
    if a == "p" or b == "p":
        return "p"
    return "nn"


def _sign_mul(a, b):
    if a == "z" or b == "z":
        return "z"
    if a is None or b is None:
        return None
    if a == "p" and b == "p":
        return "p"
    return "nn"


def _const_sign(c):
    if c == 0:
        return "z"
    if c > 0:
        return "p"
    return None


class SymReal(object):
    """A real-valued proxy num/den (den None means 1). sg: structural sign 'z','p','nn',None."""
    __slots__ = ("e", "den", "sg", "size")

    def __init__(self, e, den=None, sg=None, size=1):
        self.e = e
        self.den = den
        self.sg = sg
        self.size = size

    # -- construction helpers ------------------------------------------------
    @staticmethod
    def lift(x):
        if isinstance(x, SymReal):
            return x
        if isinstance(x, (int, float, Fraction)) and not isinstance(x, bool):
            return SymReal(rv(x), None, _const_sign(x), 1)
        if isinstance(x, bool):
            return SymReal(rv(int(x)), None, _const_sign(int(x)), 1)
        raise Unsupported("cannot lift %r" % type(x))

    def z3(self):
        """Single z3 term (uses z3 division when a denominator is present)."""
        return self.e if self.den is None else self.e / self.den

    def _lazy_sign(self):
        if self.sg is not None or CUR is None or self.size > 40 or self.den is not None:
            return self.sg
        k = self.e.get_id()
        c = CUR.sign_cache
        hit = c.get(k)
        if hit is not None and hit[0].eq(self.e):   # the entry keeps its AST alive (ids are recycled)
            self.sg = hit[1]
            return self.sg
        sg = None
        if CUR.valid(self.e > 0):
            sg = "p"
        elif CUR.valid(self.e >= 0):
            sg = "z" if CUR.valid(self.e == 0) else "nn"
        c[k] = (self.e, sg)
        self.sg = sg
        return sg

    # -- arithmetic ------------------------------------------------------------
    def __add__(self, o):
        o = SymReal.lift(o)
        if self.den is None and o.den is None:
            return SymReal(self.e + o.e, None, _sign_add(self.sg, o.sg), self.size + o.size)
        sd = self.den if self.den is not None else rv(1)
        od = o.den if o.den is not None else rv(1)
        return SymReal(self.e * od + o.e * sd, sd * od, None, self.size + o.size + 2)

    __radd__ = __add__

    def __neg__(self):
        return SymReal(-self.e, self.den, "z" if self.sg == "z" else None, self.size + 1)

    def __sub__(self, o):
        o = SymReal.lift(o)
        if o.sg == "z" and o.den is None and self.den is None:
            return self
        r = self + (-o)
        r.sg = None
        r._lazy_sign()
        return r

    def __rsub__(self, o):
        return SymReal.lift(o) - self

    def __mul__(self, o):
        o = SymReal.lift(o)
        sg = _sign_mul(self.sg, o.sg)
        den = None
        if self.den is not None or o.den is not None:
            sd = self.den if self.den is not None else rv(1)
            od = o.den if o.den is not None else rv(1)
            den = sd * od
        return SymReal(self.e * o.e, den, sg, self.size + o.size)

    __rmul__ = __mul__

    def __truediv__(self, o):
        o = SymReal.lift(o)
        # the real code would raise ZeroDivisionError on 0.0: make that a decision
        if _decide(o.e == 0):
            raise ZeroDivisionError("float division by zero")
        if o.den is not None:
            # (a/b) / (c/d) = a*d / (b*c)
            num = self.e * o.den
            den = o.e if self.den is None else self.den * o.e
            return SymReal(num, den, None, self.size + o.size + 2)
        den = o.e if self.den is None else self.den * o.e
        sg = self.sg if (o.sg == "p") else None
        return SymReal(self.e, den, sg, self.size + o.size)

    def __rtruediv__(self, o):
        return SymReal.lift(o) / self

    def __pow__(self, n):
        if isinstance(n, int) and 0 <= n <= 8:
            r = SymReal.lift(1)
            for _ in range(n):
                r = r * self
            return r
        raise Unsupported("pow")

    def __abs__(self):
        if self.sg in ("p", "nn", "z"):
            return self
        return self if _decide(self.z3() >= 0) else -self

    # -- comparisons -------------------------------------------------------------
    def _cmp(self, op, o):
        side = 0
        if isinstance(o, float):
            k, side = snap(o)
            o = k
        o = SymReal.lift(o)
        # fast path on structural signs when comparing against exact/snapped zero
        if o.sg == "z" and self.den is None:
            sg = self.sg if self.sg is not None else self._lazy_sign()
            if sg is not None:
                r = _sign_cmp(sg, op, side)
                if r is not None:
                    return SymBool(z3.BoolVal(r))
        a, b = self.z3(), o.z3()
        if op == "<":
            e = a <= b if side > 0 else a < b
        elif op == "<=":
            e = a < b if side < 0 else a <= b
        elif op == ">":
            e = a >= b if side < 0 else a > b
        elif op == ">=":
            e = a > b if side > 0 else a >= b
        elif op == "==":
            e = (a == b) if side == 0 else z3.BoolVal(False)
        else:
            e = (a != b) if side == 0 else z3.BoolVal(True)
        return SymBool(e)

    def __lt__(self, o):
        return self._cmp("<", o)

    def __le__(self, o):
        return self._cmp("<=", o)

    def __gt__(self, o):
        return self._cmp(">", o)

    def __ge__(self, o):
        return self._cmp(">=", o)

    def __eq__(self, o):
        if o is None or isinstance(o, (str, tuple, list)) or callable(o):
            return False
        return self._cmp("==", o)

    def __ne__(self, o):
        if o is None or isinstance(o, (str, tuple, list)) or callable(o):
            return True
        return self._cmp("!=", o)

    def __hash__(self):
        # structural: two computations of the same expression are the same value (dict keys, tabling)
        return hash((self.e.hash(), 0 if self.den is None else self.den.hash()))

    def __float__(self):
        raise Unsupported("float() of a symbolic real")

    def __bool__(self):
        return _decide(self.z3() != 0)

    def __repr__(self):
        if self.size > 40:
            # printing a large z3 term is slow, and the real code formats values into debug messages
            return "SymReal(<%d operations>)" % self.size
        return "SymReal(%s%s)" % (str(self.e)[:80], "" if self.den is None else " / " + str(self.den)[:40])


import numbers
numbers.Real.register(SymReal)     # the proxy is a number for code that asks isinstance(x, numbers.Number)


def _sign_cmp(sg, op, side):
    """value with structural sign sg compared (op) with 0 + side*eps; None if undetermined."""
    # effective strictness after snapping, see SymReal._cmp
    if op == "<":
        strict = not (side > 0)   # v < 0  or v <= 0
        if sg == "p":
            return False
        if sg == "z":
            return not strict
        return None if not strict else False if sg == "nn" else None
    if op == "<=":
        strict = side < 0
        if sg == "p":
            return False
        if sg == "z":
            return not strict
        return False if (strict and sg == "nn") else None
    if op == ">":
        nonstrict = side < 0  # v >= 0
        if sg == "p":
            return True
        if sg == "z":
            return nonstrict
        return True if (nonstrict and sg == "nn") else None
    if op == ">=":
        strict = side > 0
        if sg == "p":
            return True
        if sg == "z":
            return not strict
        return True if (not strict and sg == "nn") else None
    if op == "==":
        if side != 0:
            return False
        if sg == "p":
            return False
        if sg == "z":
            return True
        return None
    if op == "!=":
        if side != 0:
            return True
        if sg == "p":
            return True
        if sg == "z":
            return False
        return None
    return None


def param(name, sign="p"):
    return SymReal(z3.Real(name), None, sign, 1)


def make_sym_float(is_param):
    """A replacement for the builtin float() to be installed as a module global of a problog
    module: returns the proxy for parameter terms / proxies, the real float() otherwise."""
    def sym_float(x=0.0):
        if isinstance(x, SymReal):
            return x
        p = is_param(x)
        if p is not None:
            return p
        return builtins.float(x)
    return sym_float


# ---------------------------------------------------------------------------------------------
# log-domain proxy: a value log(x) represented by its linear image x (a SymReal >= 0).
# exp/log are treated as exact, monotone, mutually inverse bijections between [-inf, +inf) and
# [0, +inf); constants next to 0 / -1e100 are read as infinitesimally close to log 1 / log 0.

def _lin_of_const(c):
    """(linear value, side) of a float constant used in log space."""
    if isinstance(c, bool) or not isinstance(c, (int, float)):
        raise Unsupported("log-space constant %r" % (c,))
    if c == float("-inf") or c <= -1e50:
        return 0, (0 if c == float("-inf") else 1)       # exp(-1e100) = 0 + eps
    if c == 0:
        return 1, 0
    if abs(c) < 1e-6:
        return 1, (1 if c > 0 else -1)                   # exp(+-1e-12) = 1 +- eps
    raise Unsupported("log-space constant %r" % (c,))


class LogVal(object):
    __slots__ = ("lin",)

    def __init__(self, lin):
        self.lin = SymReal.lift(lin)

    @staticmethod
    def lift(x):
        if isinstance(x, LogVal):
            return x
        k, side = _lin_of_const(x)
        if side != 0:
            raise Unsupported("arithmetic with tolerance constant %r in log space" % (x,))
        return LogVal(k)

    def __add__(self, o):
        return LogVal(self.lin * LogVal.lift(o).lin)

    __radd__ = __add__

    def __sub__(self, o):
        return LogVal(self.lin / LogVal.lift(o).lin)

    def __rsub__(self, o):
        return LogVal(LogVal.lift(o).lin / self.lin)

    def __mul__(self, k):
        # k * log(x) = log(x**k) for a concrete non-negative integer multiplicity
        if isinstance(k, bool) or not isinstance(k, int) or k < 0:
            raise Unsupported("log value times %r" % (k,))
        return LogVal(self.lin ** k)

    __rmul__ = __mul__

    def _cmp(self, op, o):
        if isinstance(o, LogVal):
            return getattr(self.lin, _OPS[op])(o.lin)
        k, side = _lin_of_const(o)
        # compare lin with k + side*eps
        a = self.lin.z3()
        b = rv(k)
        if op == "<":
            e = a <= b if side > 0 else a < b
        elif op == "<=":
            e = a < b if side < 0 else a <= b
        elif op == ">":
            e = a >= b if side < 0 else a > b
        elif op == ">=":
            e = a > b if side > 0 else a >= b
        elif op == "==":
            e = (a == b) if side == 0 else z3.BoolVal(False)
        else:
            e = (a != b) if side == 0 else z3.BoolVal(True)
        return SymBool(e)

    def __lt__(self, o):
        return self._cmp("<", o)

    def __le__(self, o):
        return self._cmp("<=", o)

    def __gt__(self, o):
        return self._cmp(">", o)

    def __ge__(self, o):
        return self._cmp(">=", o)

    def __eq__(self, o):
        if o is None or isinstance(o, (str, tuple, list)) or callable(o):
            return False
        return self._cmp("==", o)

    def __ne__(self, o):
        if o is None or isinstance(o, (str, tuple, list)) or callable(o):
            return True
        return self._cmp("!=", o)

    __hash__ = object.__hash__

    def __float__(self):
        raise Unsupported("float() of a symbolic log value")

    def __repr__(self):
        return "LogVal(log %r)" % (self.lin,)


_OPS = {"<": "__lt__", "<=": "__le__", ">": "__gt__", ">=": "__ge__", "==": "__eq__", "!=": "__ne__"}


class MathShim(object):
    """Replacement for the `math` module global of a problog module: exp/log/log1p on proxies,
    everything else (and every concrete argument) goes to the real math module."""

    def __init__(self):
        import math as _m
        self._m = _m

    def __getattr__(self, name):
        return getattr(self._m, name)

    def exp(self, x):
        if isinstance(x, LogVal):
            return x.lin
        if isinstance(x, SymReal):
            raise Unsupported("exp of a symbolic real")
        return self._m.exp(x)

    def log(self, x):
        if isinstance(x, SymReal):
            if _decide(x.z3() <= 0):
                raise ValueError("math domain error")
            return LogVal(x)
        if isinstance(x, LogVal):
            raise Unsupported("log of a log value")
        return self._m.log(x)

    def log1p(self, x):
        if isinstance(x, SymReal):
            y = 1 + x
            if _decide(y.z3() <= 0):
                raise ValueError("math domain error")
            return LogVal(y)
        if isinstance(x, LogVal):
            raise Unsupported("log1p of a log value")
        return self._m.log1p(x)

"""Synthetic ground programs built through the public LogicFormula builder."""
import random

from problog.formula import LogicFormula
from problog.logic import Term


def cyclic_formula(rng, n_atoms=None, n_ors=None, neg=True):
    """A random (positively) cyclic ground program: mutable disjunctions that refer to each
    other; negation only on atoms and on disjunctions of a lower stratum."""
    n_atoms = n_atoms or rng.randint(2, 5)
    n_ors = n_ors or rng.randint(2, 6)
    lf = LogicFormula()
    atoms = [lf.add_atom("s%d" % i, 0.5, name=Term("s%d" % i)) for i in range(n_atoms)]
    ors = [lf.add_or((), placeholder=True, readonly=False) for _ in range(n_ors)]
    stratum = [rng.randint(0, 1) for _ in range(n_ors)]
    desc = []
    for j in range(n_ors):
        for _ in range(rng.randint(1, 3)):
            lits = []
            for _ in range(rng.randint(1, 3)):
                if rng.random() < 0.5:
                    a = rng.choice(atoms)
                    lits.append(-a if (neg and rng.random() < 0.3) else a)
                else:
                    o = rng.randrange(n_ors)
                    if stratum[o] < stratum[j] and neg and rng.random() < 0.4:
                        lits.append(-ors[o])
                    elif stratum[o] <= stratum[j]:
                        lits.append(ors[o])
                    else:
                        lits.append(rng.choice(atoms))
            if len(lits) == 1:
                comp = lits[0]
            else:
                comp = lf.add_and(lits)
            desc.append((j, lits))
            if comp is None or comp == 0:
                comp = rng.choice(atoms)
            lf.add_disjunct(ors[j], comp)
    for j in range(n_ors):
        if rng.random() < 0.8:
            lf.add_name(Term("q%d" % j), ors[j], lf.LABEL_QUERY)
    if rng.random() < 0.4:
        j = rng.randrange(n_ors)
        lf.add_name(Term("q%d" % j), ors[j], rng.choice([lf.LABEL_EVIDENCE_POS, lf.LABEL_EVIDENCE_NEG]))
    return lf, desc

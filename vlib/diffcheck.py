"""Run-vs-run obligations: two configurations of the *real* code must compute the same
rational function of the parameters (and agree on every world), decided by z3.

A configuration is a callable cfg(text, semiring) -> {name: value}; with semiring=None it must
run with ProbLog's defaults on numeric text (the concrete replay path).
"""
from fractions import Fraction

import z3

from . import gen, symsem, sym
from .common import Stats, short_hash
from .semcheck import call_site
from problog.errors import ProbLogError, InconsistentEvidenceError


def legal_from_groups(groups):
    cs = []
    for g in groups:
        vs = [z3.Bool("x" + p[1:]) for p in g]
        for i in range(len(vs)):
            for j in range(i + 1, len(vs)):
                cs.append(z3.Or(z3.Not(vs[i]), z3.Not(vs[j])))
    return cs


def _norm_error(e):
    return type(e).__name__


def run_cfg_real(cfg, text, params, region, timeout_ms):
    outs, drv = symsem.run_real(lambda sr: _stringify(cfg(text, sr)), params, region=region,
                                timeout_ms=timeout_ms)
    return outs, drv


def _stringify(d):
    return dict((str(k), v) for k, v in d.items())


def concrete(cfg, text, values):
    ntext = symsem.substitute_params(text, values)
    try:
        return "ok", _stringify(cfg(ntext, None))
    except Exception as e:
        return "error", e


def default_values(params, groups):
    vals = {}
    ingroup = set(p for g in groups if len(g) > 1 for p in g)
    for i, p in enumerate(params):
        if p in ingroup:
            vals[p] = Fraction(1, 8) + Fraction(i % 3, 16)
        else:
            vals[p] = Fraction(3 + (i % 5), 10)
    return vals


def replay_diff(text, cfgA, cfgB, values, tol=1e-8, ignore_extra_zero=False, errors="type"):
    """errors='type': both runs must raise the same exception type ("the same errors");
    errors='reject': only the accept/reject decision is compared (any exception = reject)."""
    ka, ra = concrete(cfgA, text, values)
    kb, rb = concrete(cfgB, text, values)
    if ka == "error" or kb == "error":
        if ka == kb:
            if errors == "reject":
                return False, "both reject (%s / %s)" % (_norm_error(ra), _norm_error(rb))
            if _norm_error(ra) == _norm_error(rb):
                return False, "both raise %s" % _norm_error(ra)
            return True, "A raises %s, B raises %s" % (_norm_error(ra), _norm_error(rb))
        e = ra if ka == "error" else rb
        return True, "%s raises %s (%s) at %s, the other answers" % (
            "A" if ka == "error" else "B", _norm_error(e), str(e)[:120], call_site(e))
    for k in sorted(set(ra) | set(rb)):
        if k not in ra or k not in rb:
            v = ra.get(k, rb.get(k))
            if ignore_extra_zero and abs(float(v)) < tol:
                continue
            return True, "instance %s reported by only one configuration (value %s)" % (k, v)
        if abs(float(ra[k]) - float(rb[k])) > tol:
            return True, "%s: A=%.10f B=%.10f at %s" % (k, float(ra[k]), float(rb[k]),
                                                        dict((p, str(v)) for p, v in values.items()))
    return False, "agree"


def diff_check(text, cfgA, cfgB, descA, descB, groups=(), name="", prop="", timeout_ms=20000,
               bool_route=True, real_route=True, st=None, tol=1e-8, ignore_extra_zero=True,
               max_real_params=14, classify=None, key_prefix="", errors="type"):
    """Obligations: A and B agree (errors, instance sets, values for all parameter values and
    all worlds). Returns Stats."""
    st = st if st is not None else Stats()
    st["programs"] += 1
    params = symsem.find_params(text)
    region = symsem.default_region(params, groups)
    legal = legal_from_groups(groups)
    pv = symsem.Prover(region, timeout_ms)
    pkey = short_hash([text, descA, descB])
    if len(st["samples"]) < 2:
        st["samples"].append({"name": name, "program": text, "A": descA, "B": descB})

    def violation(kind, detail, what, values=None):
        values = values or default_values(params, groups)
        rep, info = replay_diff(text, cfgA, cfgB, values, tol, ignore_extra_zero, errors=errors)
        if rep:
            key = "%s:%s:%s" % (kind, pkey, detail)
            if kind == "error":
                # accept/reject disagreements are identified by exception type and call site
                parts = []
                for cfg in (cfgA, cfgB):
                    k_, r_ = concrete(cfg, text, values)
                    if k_ == "error" and not isinstance(r_, InconsistentEvidenceError):
                        parts.append("%s@%s" % (type(r_).__name__, call_site(r_)))
                if parts:
                    key = "%serror:%s" % (key_prefix, "|".join(parts))
            if classify is not None:
                key = classify(symsem.substitute_params(text, values), key) or key
            st.violation(key, "%s :: %s" % (what, info),
                         {"kind": "diff", "program": text, "A": descA, "B": descB,
                          "values": dict((k, str(v)) for k, v in values.items())})
        return rep

    def judge(route, oa, ob, extra):
        okey = "%s:%s" % (route, pkey)
        if oa.kind == "error" or ob.kind == "error":
            if oa.kind == ob.kind and (errors == "reject" or _norm_error(oa.error) == _norm_error(ob.error)):
                st.ob("proved", key=okey + ":err")
                if _norm_error(oa.error) != _norm_error(ob.error):
                    st["reject_type_diffs"] = st.get("reject_type_diffs", 0) + 1
                return
            ok = violation("error", route, "configurations disagree on accept/reject: A=%s B=%s" % (
                _norm_error(oa.error) if oa.error else "answers",
                _norm_error(ob.error) if ob.error else "answers"))
            if ok:
                st.ob("refuted", key=okey + ":err")
            else:
                e = oa.error or ob.error
                st.harness_error("route %s: one configuration raised %s at %s (%s) but the concrete replay "
                                 "agrees: %s" % (route, _norm_error(e), call_site(e), e, text))
            return
        ka, kb = set(oa.results), set(ob.results)
        for k in sorted(ka ^ kb):
            num, den = (oa.results.get(k) or ob.results.get(k))
            # an instance reported by one side only must have probability 0 (C01: unreported
            # instances have probability 0), e.g. a failing non-ground query reported as r(X2): 0
            if route == "real":
                v, m = pv.frac_equal((num, den), (z3.RealVal(0), None), extra=extra)
                r = "unsat" if v == "proved" else "sat" if v == "refuted" else "unknown"
            else:
                r, m = pv.check(num, extra=list(extra) + ([den] if den is not None else []))
            if r == "unsat":
                st.ob("proved", key=okey + ":inst:" + k)
                continue
            if r == "unknown":
                st.ob("inconclusive", key=okey + ":inst:" + k, note="z3 unknown")
                continue
            ok = violation("instances", k, "instance %s (non-zero) reported by only one configuration" % k)
            st.ob("refuted" if ok else "inconclusive", key=okey + ":inst:" + k,
                  note="instance-set difference did not replay")
        for k in sorted(ka & kb):
            a, b = oa.results[k], ob.results[k]
            if route == "real":
                v, m = pv.frac_equal(a, b, extra=extra)
                if v == "proved":
                    st.ob("proved", key=okey + ":" + k)
                elif v == "refuted":
                    vals = symsem.model_values(m, params)
                    ok = violation("real", k, "%s: the two configurations compute different functions of "
                                   "the parameters" % k, vals)
                    if ok:
                        st.ob("refuted", key=okey + ":" + k)
                    else:
                        st.harness_error("real-route model did not replay for %s: %s A=%s B=%s vals=%s" % (
                            k, text, descA, descB, vals))
                else:
                    st.ob("inconclusive", key=okey + ":" + k, note="z3 unknown (nra)")
            else:
                (na, da), (nb, db) = a, b
                cond = [z3.Xor(na, nb)]
                ex = list(extra)
                if da is not None:
                    ex.append(da)
                if db is not None:
                    ex.append(db)
                r, m = pv.check(z3.Or(*cond), extra=ex)
                if r == "unsat":
                    st.ob("proved", key=okey + ":" + k)
                elif r == "sat":
                    vals = {}
                    for p in params:
                        t = z3.is_true(m.eval(z3.Bool("x" + p[1:]), model_completion=True))
                        ing = any(p in g and len(g) > 1 for g in groups)
                        vals[p] = (Fraction(3, 4) if t else Fraction(1, 16)) if ing else \
                            (Fraction(7, 8) if t else Fraction(1, 8))
                    ok = violation("bool", k, "%s: configurations disagree in a possible world" % k, vals)
                    st.ob("refuted" if ok else "inconclusive", key=okey + ":" + k,
                          note="bool-route difference did not replay numerically (%s)" % k)
                else:
                    st.ob("inconclusive", key=okey + ":" + k, note="z3 unknown (sat)")

    if bool_route:
        try:
            oa, sa = symsem.run_bool(lambda sr: _stringify(cfgA(text, sr)), legal)
            ob, sb = symsem.run_bool(lambda sr: _stringify(cfgB(text, sr)), legal)
            st["solver_time"] += sa.solver_time + sb.solver_time
            st["queries"] += sa.queries + sb.queries
            judge("bool", oa, ob, legal)
        except (sym.Unsupported, sym.Inconclusive) as e:
            st.ob("inconclusive", note="bool route: %s" % e)
    if real_route and len(params) <= max_real_params:
        try:
            outsA, da_ = run_cfg_real(cfgA, text, params, region, timeout_ms)
            outsB, db_ = run_cfg_real(cfgB, text, params, region, timeout_ms)
            st["solver_time"] += da_.solver_time + db_.solver_time
            st["queries"] += da_.queries + db_.queries
            if len(outsA) != 1 or len(outsB) != 1:
                st.ob("inconclusive", note="weight-domain fork inside the default region")
            else:
                judge("real", outsA[0], outsB[0], [])
        except (sym.Unsupported, sym.Inconclusive) as e:
            st.ob("inconclusive", note="real route: %s" % e)
    st["solver_time"] += pv.solver_time
    st["queries"] += pv.queries
    return st

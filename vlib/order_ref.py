"""Reference standard order of terms (Yap / SWI-Prolog): Var < Number < Atom < Compound;
numbers by value, a float before an equal integer; atoms alphabetically by their text (quotes are not
part of the text); compound terms by arity, then name, then arguments left to right.
Strings are only compared with strings (their position relative to atoms is not asserted)."""
from problog.logic import Term, Constant, Var

NA = None


def klass(t):
    if t is None or type(t) == int or isinstance(t, Var):
        return 0
    if isinstance(t, Constant):
        v = t.functor
        if isinstance(v, str):
            return 2   # string
        return 1       # number
    if t.arity == 0:
        return 3
    return 4


def atom_text(t):
    s = str(t.functor)
    if len(s) >= 2 and s[0] == "'" and s[-1] == "'":
        return s[1:len(s) - 1]
    return s


def cmp3(x, y):
    return -1 if x < y else (1 if x > y else 0)


def ref_cmp(a, b):
    ka, kb = klass(a), klass(b)
    if ka == 2 or kb == 2:
        if ka == 2 and kb == 2:
            return cmp3(str(a.functor), str(b.functor))
        if ka in (0, 1) and kb == 2:
            return -1
        if kb in (0, 1) and ka == 2:
            return 1
        return NA   # string vs atom / compound: not asserted
    if ka != kb:
        return cmp3(ka, kb)
    if ka == 0:
        return NA if a != b else 0      # order of distinct variables is by address: not asserted
    if ka == 1:
        x, y = a.functor, b.functor
        c = cmp3(x, y)
        if c != 0:
            return c
        fa, fb = isinstance(x, float), isinstance(y, float)
        if fa and not fb:
            return -1
        if fb and not fa:
            return 1
        return 0
    if ka == 3:
        return cmp3(atom_text(a), atom_text(b))
    c = cmp3(a.arity, b.arity)
    if c != 0:
        return c
    c = cmp3(atom_text(a), atom_text(b))
    if c != 0:
        return c
    for x, y in zip(a.args, b.args):
        c = ref_cmp(x, y)
        if c is NA:
            return NA
        if c != 0:
            return c
    return 0

"""Entry point: python -m vlib.main <id> [--tier quick|thorough] [--replay path]"""
import argparse
import importlib
import json
import os
import sys

from .common import EXIT_HARNESS, EXIT_OK, EXIT_VIOLATION


def main():
    ap = argparse.ArgumentParser()
    ap.add_argument("prop")
    ap.add_argument("--tier", default=os.environ.get("VERIF_TIER", "quick"))
    ap.add_argument("--replay", default=None)
    args = ap.parse_args()
    seed = int(os.environ.get("VERIF_SEED", "0") or 0)
    tier = args.tier if args.tier in ("quick", "thorough") else "quick"
    mod = importlib.import_module("props.%s" % args.prop.lower())
    if args.replay:
        with open(args.replay) as f:
            obj = json.load(f)
        ok = mod.replay(obj["replay"])
        if ok:
            print("VIOLATION property=%s replay=%s" % (args.prop, args.replay))
            print("  reproduced: %s" % obj.get("what"))
            return EXIT_VIOLATION
        print("replay did not reproduce")
        return EXIT_OK
    return mod.main(tier, seed)


if __name__ == "__main__":
    try:
        rc = main()
    except SystemExit:
        raise
    except BaseException:
        import traceback
        traceback.print_exc()
        rc = EXIT_HARNESS
    sys.stdout.flush()
    sys.exit(rc)

"""C11 support: call sequences on the real LogicFormula builder, mirrored by a naive spec graph.

The spec graph performs no simplification at all (no folding, no sharing, no collapsing): it *is*
"the Boolean function the call sequence describes".  Both the real node table and the spec graph are
given their least-model meaning by the same SCC-unrolled encoder (vlib.tv.encode_nodes); z3 then
decides equivalence for all atom assignments.  A concrete evaluator (no z3) is used for replay.
"""
import z3

from problog.formula import LogicFormula
from problog.logic import Term

from . import tv


class Spec(object):
    def __init__(self):
        self.nodes = {}
        self.atoms = {}

    def _new(self, node):
        i = len(self.nodes) + 1
        self.nodes[i] = node
        return i

    def atom(self, ident):
        if ident not in self.atoms:
            self.atoms[ident] = self._new(("atom", ident))
        return self.atoms[ident]

    def const(self, b):
        return 0 if b else None

    def conj(self, lits):
        return self._new(("conj", tuple(lits)))

    def disj(self, lits):
        return self._new(("disj", tuple(lits)))

    def add_child(self, i, lit):
        t, ch = self.nodes[i]
        assert t == "disj"
        self.nodes[i] = (t, ch + (lit,))

    @staticmethod
    def neg(lit):
        if lit == 0:
            return None
        if lit is None:
            return 0
        return -lit


def impl_nodes(lf):
    """Node table of the real formula; a kept deterministic atom (probability None, keep_all) is TRUE."""
    nodes = {}
    for index, node, ntype in lf:
        if ntype == "atom":
            if node.probability is None:
                nodes[index] = ("const", True)
            elif node.probability is False:
                nodes[index] = ("const", False)
            else:
                nodes[index] = ("atom", node.identifier)
        else:
            nodes[index] = (ntype, tuple(node.children))
    return nodes


class Rejected(Exception):
    """The builder refused the call with its documented error (ValueError)."""


class Session(object):
    """Executes ops on the real builder and on the spec in lock step."""

    def __init__(self, opts):
        self.opts = dict(opts)
        self.lf = LogicFormula(**self.opts)
        self.spec = Spec()
        self.slots = []      # (impl_key, spec_lit, info)
        self.given = {}      # name -> spec literals of the nodes that were given that name
        self.mutable = []    # slot indices of mutable disjunctions
        self.log = []

    def operand(self, o):
        if o[0] == "T":
            return 0, 0
        if o[0] == "F":
            return None, None
        _, slot, negd = o
        k, s, _ = self.slots[slot]
        if negd:
            return self.lf.negate(k), Spec.neg(s)
        return k, s

    def step(self, op):
        lf, spec = self.lf, self.spec
        kind = op[0]
        if kind == "atom":
            _, ident, pk, group = op
            prob = {"p": 0.5, "none": None, "false": False, "true": True}[pk]
            key = lf.add_atom(ident, prob, group=group, name=Term("at%s" % ident))
            if pk == "none":
                s = 0
            elif pk == "false":
                s = None
            else:
                s = spec.atom(ident)
            self.given.setdefault("at%s" % ident, []).append(s)
            self.slots.append((key, s, "atom"))
        elif kind in ("and", "or"):
            ops = [self.operand(o) for o in op[1]]
            ks = [k for k, _ in ops]
            ss = [s for _, s in ops]
            kw = {}
            name = op[2].get("name")
            if name:
                kw["name"] = Term(name)
            if op[2].get("compact") is not None:
                kw["compact"] = op[2]["compact"]
            if kind == "and":
                key = lf.add_and(ks, **kw)
                s = spec.conj(ss)
                if name:
                    self.given.setdefault(name, []).append(s)
                self.slots.append((key, s, "and"))
            else:
                ro = op[2].get("readonly", True)
                ph = op[2].get("placeholder", False)
                key = lf.add_or(ks, readonly=ro, placeholder=ph, **kw)
                s = spec.disj(ss)
                if name:
                    self.given.setdefault(name, []).append(s)
                self.slots.append((key, s, "or" if (ro and not ph) else "mor"))
                if not (ro and not ph):
                    self.mutable.append(len(self.slots) - 1)
        elif kind == "disjunct":
            _, slot, o = op
            k, s, info = self.slots[slot]
            ck, cs = self.operand(o)
            try:
                ret = lf.add_disjunct(k, ck)
            except ValueError:
                self.slots.append((None, None, "rejected"))
                raise Rejected()
            spec.add_child(s, cs)
            # the documented return value is the key of the updated node
            self.slots.append((ret, s, "ret-disjunct"))
        elif kind == "neg":
            k, s, _ = self.slots[op[1]]
            self.slots.append((lf.negate(k), Spec.neg(s), "neg"))
        elif kind == "name":
            _, slot, name, label = op
            k, s, _ = self.slots[slot]
            lf.add_name(Term(name), k, label)
            self.given[name] = [s]
        else:
            raise ValueError(kind)
        self.log.append(op)

    # -- meaning -----------------------------------------------------------------------
    def encodings(self):
        impl = tv.encode_nodes(impl_nodes(self.lf))
        spec = tv.encode_nodes(self.spec.nodes)
        return impl, spec

    def named_keys(self):
        """(name, label, impl key, [spec lits]) for every entry of the real name table: the key a
        name maps to must denote (one of) the node(s) that were given this name."""
        out = []
        for name, key, label in self.lf.get_names_with_label():
            cands = self.given.get(str(name))
            if cands:
                out.append((str(name), label, key, cands))
        return out


def eval_nodes(nodes, assignment):
    """Concrete least-model evaluation (no z3): dict index -> bool."""
    val = {}

    def lit(c, cur):
        if c == 0:
            return True
        if c is None:
            return False
        v = cur[abs(c)] if abs(c) in cur else val[abs(c)]
        return (not v) if c < 0 else v

    def ev(v, cur):
        t, ch = nodes[v]
        if t == "atom":
            return bool(assignment.get(str(ch), False))
        if t == "const":
            return bool(ch)
        parts = [lit(c, cur) for c in ch]
        return all(parts) if t == "conj" else any(parts)

    for comp in tv._sccs(nodes):
        cur = dict((v, False) for v in comp)
        for _ in range(len(comp) + 1):
            cur = dict((v, ev(v, cur)) for v in comp)
        val.update(cur)
    return val


def lit_value(val, key):
    if key == 0:
        return True
    if key is None:
        return False
    v = val[abs(key)]
    return (not v) if key < 0 else v


def replay_sequence(opts, ops, assignment):
    """Re-run the sequence on the real builder; return list of (slot, impl value, spec value) that
    differ under the concrete atom assignment (evaluated without z3)."""
    ses = Session(opts)
    for op in ops:
        try:
            ses.step(tuple(op) if not isinstance(op, tuple) else op)
        except Rejected:
            continue
    iv = eval_nodes(impl_nodes(ses.lf), assignment)
    sv = eval_nodes(ses.spec.nodes, assignment)
    bad = []
    for i, (k, s, info) in enumerate(ses.slots):
        try:
            a = lit_value(iv, k)
        except (KeyError, TypeError):
            a = "invalid-key"
        b = lit_value(sv, s)
        if a != b:
            bad.append((i, info, a, b))
    for name, label, k, cands in ses.named_keys():
        a = lit_value(iv, k)
        bs = [lit_value(sv, s) for s in cands]
        if a not in bs:
            bad.append(("name:" + name, label, a, bs))
    return bad

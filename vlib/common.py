"""Common plumbing: run context, evidence, replays, known findings, parallel map.

Exit codes: 0 held / 1 VIOLATION / 3 harness error (encoding bug, non-reproducing model).
"""
import hashlib
import json
import os
import sys
import time
import traceback

VERIF = os.path.dirname(os.path.dirname(os.path.abspath(__file__)))
REPO = os.environ.get("VERIF_REPO", "/repo")
EXIT_OK, EXIT_VIOLATION, EXIT_HARNESS = 0, 1, 3


def jdump(o):
    return json.dumps(o, sort_keys=True, default=str)


def short_hash(o):
    return hashlib.sha1(jdump(o).encode()).hexdigest()[:12]


class HarnessError(Exception):
    """The machinery (encoding, stub, replay) is wrong - never reported as a violation."""


class KnownFindings(object):
    def __init__(self, path=None):
        path = path or os.path.join(VERIF, "known_findings.json")
        self.entries = []
        if os.path.exists(path):
            with open(path) as f:
                self.entries = json.load(f).get("findings", [])

    def match(self, prop, key):
        """Return the entry listing exactly this failing input (status 'known'), else None."""
        for e in self.entries:
            if (e.get("property") == prop or prop in e.get("properties", [])) and e.get("status") == "known":
                if key in e.get("keys", []):
                    return e
        return None


class Run(object):
    """One execution of one property check."""

    def __init__(self, prop, tier, seed, level, explanation=""):
        self.prop = prop
        self.tier = tier
        self.seed = seed
        self.level = level
        self.explanation = explanation
        self.t0 = time.time()
        self.obligations = 0
        self.discharged = 0
        self.inconclusive = 0
        self.refuted = 0
        self.solver_time = 0.0
        self.queries = 0
        self.programs = 0
        self.samples = []
        self.bounds = {}
        self.functions = []
        self.assumptions = []
        self.violations = []  # (key, what, replay obj)
        self.known_hits = []
        self.harness_errors = []
        self.inconclusive_notes = []
        self.extra = {}
        self.known = KnownFindings()
        self.nontrivial = set()
        self.exhaustive = False

    # --- bookkeeping -----------------------------------------------------
    def sample(self, s, limit=12):
        if len(self.samples) < limit:
            self.samples.append(s)

    def merge(self, st):
        """Merge a worker's stats dict (see Stats)."""
        self.obligations += st.get("obligations", 0)
        self.discharged += st.get("discharged", 0)
        self.inconclusive += st.get("inconclusive", 0)
        self.solver_time += st.get("solver_time", 0.0)
        self.queries += st.get("queries", 0)
        self.programs += st.get("programs", 0)
        for n in st.get("notes", []):
            if len(self.inconclusive_notes) < 20:
                self.inconclusive_notes.append(n)
        for s in st.get("samples", []):
            self.sample(s)
        for k in st.get("nontrivial", []):
            self.nontrivial.add(k)
        for v in st.get("violations", []):
            self.violation(v["key"], v["what"], v["replay"])
        for h in st.get("harness_errors", []):
            self.harness_errors.append(h)

    def violation(self, key, what, replay):
        """A reproduced counterexample. key identifies the failing input narrowly."""
        self.refuted += 1
        e = self.known.match(self.prop, key)
        if e is not None:
            if key not in [k for k, _ in self.known_hits]:
                self.known_hits.append((key, e.get("what", what)))
            return
        if key in [v[0] for v in self.violations]:
            return
        self.violations.append((key, what, replay))

    # --- finish ------------------------------------------------------------
    def finish(self):
        wall = time.time() - self.t0
        for key, what in self.known_hits:
            print("KNOWN-FINDING: property=%s %s [%s]" % (self.prop, what, key))
        rdir = os.path.join(VERIF, "replays", self.prop)
        for key, what, replay in self.violations:
            os.makedirs(rdir, exist_ok=True)
            path = os.path.join(rdir, short_hash([key, replay]) + ".json")
            with open(path, "w") as f:
                json.dump({"property": self.prop, "key": key, "what": what, "replay": replay},
                          f, indent=1, default=str)
            print("VIOLATION property=%s replay=%s" % (self.prop, path))
            print("  what: %s" % what)
        cov = {
            "obligations": self.obligations,
            "discharged": self.discharged,
            "inconclusive": self.inconclusive,
            "refuted_and_replayed": self.refuted,
            "solver_time_s": round(self.solver_time, 3),
            "queries": self.queries,
            "functions_encoded": self.functions,
            "bounds": self.bounds,
            "samples": self.samples or ["(none)"],
            "evaluations": max(self.obligations, 1),
            "distinct_nontrivial": len(self.nontrivial),
            "rule": self.extra.pop("rule", "distinct obligations (by content hash) whose solver query was not "
                                           "syntactically trivial"),
            "exhaustive": self.exhaustive,
            "known_findings_hit": [k for k, _ in self.known_hits],
            "inconclusive_notes": self.inconclusive_notes,
        }
        if self.level == "translation_validation":
            cov["programs"] = max(self.programs, 0)
            cov["disagreements_checked"] = self.refuted
        cov["explanation"] = self.explanation
        cov.update(self.extra)
        ev = {
            "property_id": self.prop,
            "tier": self.tier,
            "seed": self.seed,
            "level": self.level,
            "coverage": cov,
            "assumptions": self.assumptions,
            "wall_s": round(wall, 2),
            "violations": len(self.violations),
        }
        os.makedirs(os.path.join(VERIF, "evidence"), exist_ok=True)
        with open(os.path.join(VERIF, "evidence", self.prop + ".json"), "w") as f:
            json.dump(ev, f, indent=1, default=str)
        print("%s tier=%s seed=%d obligations=%d discharged=%d inconclusive=%d refuted=%d "
              "known=%d violations=%d solver=%.1fs wall=%.1fs" % (
                  self.prop, self.tier, self.seed, self.obligations, self.discharged,
                  self.inconclusive, self.refuted, len(self.known_hits), len(self.violations),
                  self.solver_time, wall))
        if self.harness_errors:
            for h in self.harness_errors[:10]:
                print("HARNESS-ERROR: %s" % (h,), file=sys.stderr)
            return EXIT_HARNESS
        if self.violations:
            return EXIT_VIOLATION
        return EXIT_OK


class Stats(dict):
    """Picklable per-worker statistics, merged into Run by Run.merge."""

    def __init__(self):
        dict.__init__(self, obligations=0, discharged=0, inconclusive=0, solver_time=0.0,
                      queries=0, programs=0, notes=[], samples=[], nontrivial=[], violations=[],
                      harness_errors=[])

    def ob(self, verdict, key=None, note=None):
        """Record one obligation. verdict: 'proved' | 'inconclusive' | 'refuted'."""
        self["obligations"] += 1
        if verdict == "proved":
            self["discharged"] += 1
        elif verdict == "inconclusive":
            self["inconclusive"] += 1
            if note and len(self["notes"]) < 5:
                self["notes"].append(note)
        if key is not None:
            self["nontrivial"].append(key)

    def violation(self, key, what, replay):
        self["violations"].append({"key": key, "what": what, "replay": replay})

    def harness_error(self, msg):
        self["harness_errors"].append(msg)


_PM_FN = None
_PM_ITEMS = None


_PM_TIMEOUT = None


class ItemTimeout(BaseException):
    pass


def _alarm(signum, frame):
    raise ItemTimeout()


def _pm_call(i):
    import signal
    x = _PM_ITEMS[i]
    try:
        if _PM_TIMEOUT:
            signal.signal(signal.SIGALRM, _alarm)
            signal.alarm(int(_PM_TIMEOUT))
        try:
            return _PM_FN(x)
        finally:
            if _PM_TIMEOUT:
                signal.alarm(0)
    except ItemTimeout:
        st = Stats()
        st.ob("inconclusive", note="item exceeded %ss wall budget: %s" % (_PM_TIMEOUT, str(x)[:120]))
        st["programs"] = 0
        return st
    except BaseException as e:  # noqa - includes solver/crosshair control exceptions
        st = Stats()
        st.harness_error("%s on %r: %s" % (type(e).__name__, str(x)[:300],
                                            traceback.format_exc()[-1500:]))
        return st


def pmap(fn, items, procs=None, chunksize=1, item_timeout=60):
    """Parallel map over forked processes; fn returns a Stats (or anything picklable).
    An unexpected exception in a worker becomes a harness error (exit 3), never a pass.
    An item exceeding item_timeout seconds of wall time is recorded as inconclusive."""
    import multiprocessing as mp
    global _PM_FN, _PM_ITEMS, _PM_TIMEOUT
    items = list(items)
    _PM_FN, _PM_ITEMS, _PM_TIMEOUT = fn, items, item_timeout
    procs = procs or int(os.environ.get("VERIF_PROCS", "16"))
    if procs <= 1 or len(items) <= 1:
        return [_pm_call(i) for i in range(len(items))]
    ctx = mp.get_context("fork")
    with ctx.Pool(min(procs, len(items))) as pool:
        return pool.map(_pm_call, range(len(items)), chunksize=chunksize)

"""Reference Robinson unification (with occurs check) over ProbLog's term representation, and the
agreement predicates used by the C14 harnesses.  Variables are negative ints; None is an anonymous
variable (each occurrence distinct)."""
from problog.logic import Term, Constant, is_variable
from problog.engine_unify import (unify_value, unify_value_dc, UnifyError, OccursCheck, unify_call_head,
                                  unify_call_return, subsumes)


class NoUnifier(Exception):
    def __init__(self, occurs=False):
        Exception.__init__(self)
        self.occurs = occurs


def _is_var(t):
    return t is None or type(t) == int


def walk(t, s):
    while _is_var(t) and t is not None and t in s:
        t = s[t]
    return t


def occurs(v, t, s):
    t = walk(t, s)
    if _is_var(t):
        return t == v
    return any(occurs(v, a, s) for a in t.args)


def same_functor(a, b):
    """ProbLog's own notion of 'same symbol': signature (functor/arity as text)."""
    return a.signature == b.signature


def fresh_anon(terms):
    """The terms with every anonymous variable (None) replaced by a distinct fresh named variable: the reference must
    not reuse one anonymous occurrence after it has been copied through a binding (f(_) = X, g(X) = X ...)."""
    counter = [-1000]

    def walk(t):
        if t is None:
            counter[0] -= 1
            return counter[0]
        if _is_var(t):
            return t
        if not t.args:
            return t
        return t.with_args(*[walk(a) for a in t.args])
    return [walk(t) for t in terms]


def ref_unify(a, b, s):
    """Extend triangular substitution s; raises NoUnifier."""
    a, b = walk(a, s), walk(b, s)
    if a is None or b is None:
        return s
    if _is_var(a) and _is_var(b):
        if a != b:
            s[min(a, b)] = max(a, b)
        return s
    if _is_var(a):
        if occurs(a, b, s):
            raise NoUnifier(True)
        s[a] = b
        return s
    if _is_var(b):
        if occurs(b, a, s):
            raise NoUnifier(True)
        s[b] = a
        return s
    if not same_functor(a, b):
        raise NoUnifier(False)
    for x, y in zip(a.args, b.args):
        ref_unify(x, y, s)
    return s


def resolve(t, s, depth=0, limit=30):
    """Fully apply substitution; raises RecursionError-like ValueError on cyclic bindings."""
    if depth > limit:
        raise ValueError("cyclic binding")
    t2 = t
    steps = 0
    while _is_var(t2) and t2 is not None and t2 in s and s[t2] is not None and s[t2] != t2:
        t2 = s[t2]
        steps += 1
        if steps > limit:
            raise ValueError("cyclic binding")
    if _is_var(t2):
        return t2
    return t2.with_args(*[resolve(a, s, depth + 1, limit) for a in t2.args])


def variables_of(t, acc=None):
    acc = [] if acc is None else acc
    if t is None:
        return acc
    if _is_var(t):
        if t not in acc:
            acc.append(t)
        return acc
    for a in t.args:
        variables_of(a, acc)
    return acc


def equal_mod_anon(a, b):
    """Syntactic equality where an anonymous variable matches anything."""
    if a is None or b is None:
        return True
    if _is_var(a) or _is_var(b):
        return _is_var(a) and _is_var(b) and a == b
    if not same_functor(a, b):
        return False
    return all(equal_mod_anon(x, y) for x, y in zip(a.args, b.args))


def variant(a, b, fw=None, bw=None):
    """a and b equal up to a bijective renaming of variables (None matches None)."""
    fw = {} if fw is None else fw
    bw = {} if bw is None else bw
    if _is_var(a) or _is_var(b):
        if not (_is_var(a) and _is_var(b)):
            return False
        if a is None or b is None:
            return a is None and b is None
        if fw.setdefault(a, b) != b or bw.setdefault(b, a) != a:
            return False
        return True
    if not same_functor(a, b) or len(a.args) != len(b.args):
        return False
    return all(variant(x, y, fw, bw) for x, y in zip(a.args, b.args))


def has_anon(t):
    if t is None:
        return True
    if _is_var(t):
        return False
    return any(has_anon(a) for a in t.args)


def check_unify_value(t1, t2):
    """'' if the real unify_value agrees with the reference on (t1, t2), else a description."""
    try:
        if has_anon(t1) or has_anon(t2):
            # only solvability is taken from the reference when anonymous variables occur (each occurrence distinct)
            q1, q2 = fresh_anon([t1, t2])
            ref = ref_unify(q1, q2, {})
        else:
            ref = ref_unify(t1, t2, {})
        ref_ok, ref_occ = True, False
    except NoUnifier as e:
        ref, ref_ok, ref_occ = None, False, e.occurs
    sv = {}
    try:
        res = unify_value(t1, t2, sv)
    except UnifyError:
        return "" if not ref_ok else "fails although an mgu exists"
    except OccursCheck:
        return "" if (not ref_ok) else "raises OccursCheck although an mgu exists"
    if not ref_ok:
        try:
            r1, r2 = resolve(t1, sv), resolve(t2, sv)
        except ValueError:
            return "succeeds with a cyclic binding %s" % (sv,)
        return "succeeds (bindings %s) although no unifier exists%s" % (sv, " (occurs check)" if ref_occ else "")
    try:
        r1, r2 = resolve(t1, sv), resolve(t2, sv)
        rr = resolve(res, sv)
    except ValueError:
        return "succeeds with a cyclic binding %s" % (sv,)
    if not equal_mod_anon(r1, r2):
        return "bindings %s are not a unifier: %s vs %s" % (sv, r1, r2)
    if not equal_mod_anon(rr, r1):
        return "returned value %s differs from the unified term %s" % (rr, r1)
    if not has_anon(t1) and not has_anon(t2):
        vs = variables_of(t1, variables_of(t2))
        a = Term("t", *[resolve(v, sv) for v in vs])
        b = Term("t", *[resolve(v, ref) for v in vs])
        if not variant(a, b):
            return "unifier %s is not most general (reference %s)" % (sv, ref)
    return ""


def check_eq_neq(t1, t2):
    """=/2 and \\=/2 builtins against the reference."""
    from problog.engine_builtin import _builtin_eq, _builtin_neq
    try:
        r1, r2 = fresh_anon([t1, t2])
        ref_unify(r1, r2, {})
        ref_ok = True
    except NoUnifier:
        ref_ok = False
    try:
        eq = _builtin_eq(t1, t2)
        eq_ok = bool(eq)
    except OccursCheck:
        eq_ok = None
    try:
        neq = bool(_builtin_neq(t1, t2))
    except OccursCheck:
        neq = None
    if eq_ok is None or neq is None:
        return "" if not ref_ok else "=/\\= raise OccursCheck although an mgu exists"
    if eq_ok != ref_ok:
        return "= %s but reference %s" % (eq_ok, ref_ok)
    if neq == eq_ok:
        return "\\= (%s) is not the complement of = (%s)" % (neq, eq_ok)
    return ""


def rename_head(t, n):
    """Head terms use non-negative ints as variables (positions in the clause context)."""
    return t


def check_call_head(call_args, head_args, nvars):
    """Clause-head resolution: unify_call_head(call_args, head_args, context) against the reference.
    Call variables are negative ints, head variables are ints 0..nvars-1."""
    # reference: rename head variables i -> -(100+i)
    def ren(t):
        if t is None:
            return None
        if type(t) == int:
            return -(100 + t) if t >= 0 else t
        return t.with_args(*[ren(a) for a in t.args])
    try:
        s = {}
        for c, h in zip(call_args, head_args):
            ref_unify(c, ren(h), s)
        ref_ok, ref_occ = True, False
    except NoUnifier as e:
        ref_ok, ref_occ = False, e.occurs
    ctx = [None] * nvars
    try:
        out = unify_call_head(list(call_args), list(head_args), ctx)
    except UnifyError:
        return "" if not ref_ok else "head unification fails although an mgu exists"
    except OccursCheck:
        return "" if not ref_ok else "head unification raises OccursCheck although an mgu exists"
    if not ref_ok:
        return "head unification succeeds (context %s) although no unifier exists%s" % (out, " (occurs check)" if ref_occ else "")
    # the context gives each head variable a value over call variables; it must be an instance-equivalent
    # of the reference binding of that head variable, jointly up to renaming
    anon = any(has_anon(c) for c in call_args) or any(has_anon(h) for h in head_args)
    if not anon:
        try:
            a = Term("t", *[resolve(-(100 + i), s) for i in range(nvars)])
        except ValueError:
            return "reference cyclic (harness bug)"
        # head variables not occurring in the head stay unbound (None) in the real context
        b_args = []
        for i in range(nvars):
            b_args.append(out[i])
        # unbound head variables: reference has a fresh variable, real has None -> compare mod anon
        ok = True
        fw, bw = {}, {}
        for x, y in zip(a.args, b_args):
            if y is None:
                continue
            if not variant(x, y, fw, bw):
                ok = False
        if not ok:
            return "clause context %s is not the most general unifier (reference %s)" % (out, list(a.args))
    return ""

"""Source text of the int()/float() shims installed as module globals of problog.engine_builtin inside the
CrossHair subprocess: CrossHair cannot pass a symbolic value through Constant.__int__/__float__.
The shims are classes whose isinstance() check is the builtin type's, so code that uses int/float as TYPES
(isinstance(x, (int, float))) keeps working."""

SHIM_SOURCE = '''
import builtins as _bi


class _ShimMeta(type):
    def __instancecheck__(cls, obj):
        return isinstance(obj, cls._real)

    def __subclasscheck__(cls, sub):
        return issubclass(sub, cls._real)


class _int(metaclass=_ShimMeta):
    _real = _bi.int

    def __new__(cls, x=0, *a):
        if type(x) is Constant and not isinstance(x.functor, (_bi.float, str)):
            return x.functor
        return _bi.int(x, *a)


class _float(metaclass=_ShimMeta):
    _real = _bi.float

    def __new__(cls, x=0.0):
        if type(x) is Constant and not isinstance(x.functor, str):
            return x.functor      # an int stays an int: only its value is compared
        return _bi.float(x)
'''

"""E5 law prover: run a harness over the REAL functions on proxy values, one run per feasible path
(vlib.sym.PathDriver), and let z3 decide the postcondition on every path for all values in the region.

A harness is fn(V) where V(name) yields the value of the symbolic input `name` (a proxy while
proving, a concrete number while replaying).  It returns either a pair (lhs, rhs) that must be equal,
or a single condition that must hold.  Counterexamples are replayed with concrete floats through the
same harness (the shims pass concrete values through to the real builtins).
"""
from fractions import Fraction

import z3

from . import sym
from .sym import SymReal, SymBool, LogVal, PathDriver, Unsupported, Inconclusive
from .common import short_hash


def to_z3_eq(a, b):
    """z3 Bool: a equals b (numbers / proxies / tuples / strings / bools)."""
    if isinstance(a, (tuple, list)) and isinstance(b, (tuple, list)):
        if len(a) != len(b):
            return z3.BoolVal(False)
        return z3.And(*[to_z3_eq(x, y) for x, y in zip(a, b)]) if a else z3.BoolVal(True)
    if isinstance(a, LogVal) or isinstance(b, LogVal):
        a, b = LogVal.lift(a), LogVal.lift(b)
        return to_z3_eq(a.lin, b.lin)
    if isinstance(a, SymBool) or isinstance(b, SymBool):
        ea = a.e if isinstance(a, SymBool) else z3.BoolVal(bool(a))
        eb = b.e if isinstance(b, SymBool) else z3.BoolVal(bool(b))
        return ea == eb
    if isinstance(a, SymReal) or isinstance(b, SymReal):
        a, b = SymReal.lift(a), SymReal.lift(b)
        lhs = a.e if b.den is None else a.e * b.den
        rhs = b.e if a.den is None else b.e * a.den
        return lhs == rhs
    if isinstance(a, bool) or isinstance(b, bool) or a is None or b is None:
        return z3.BoolVal(a == b)
    return z3.BoolVal(bool(concrete_equal(a, b)))


def cond_z3(c):
    if isinstance(c, SymBool):
        return c.e
    if isinstance(c, z3.BoolRef):
        return c
    return z3.BoolVal(bool(c))


def concrete_equal(a, b, tol=1e-9):
    if isinstance(a, (tuple, list)) and isinstance(b, (tuple, list)):
        return len(a) == len(b) and all(concrete_equal(x, y, tol) for x, y in zip(a, b))
    if isinstance(a, bool) or isinstance(b, bool) or a is None or b is None or isinstance(a, str) or isinstance(b, str):
        return a == b
    try:
        if a == b:
            return True
        if a != a or b != b:
            return False
        return abs(a - b) <= tol * max(1.0, abs(a), abs(b))
    except TypeError:
        return a == b


class Law(object):
    """name; params: list of (name, lo, hi) closed real intervals (None = unbounded);
    extra: callable(vars dict name->z3 Real) -> list of z3 constraints; fn: the harness;
    expect_exc: exception class that every path must raise (None: paths must not raise)."""

    def __init__(self, name, params, fn, extra=None, expect_exc=None, allow_exc=(), max_paths=64, functions=()):
        self.name = name
        self.params = params
        self.fn = fn
        self.extra = extra
        self.expect_exc = expect_exc
        self.allow_exc = tuple(allow_exc)
        self.max_paths = max_paths
        self.functions = functions

    def region(self):
        cs = []
        vs = {}
        for p, lo, hi in self.params:
            v = z3.Real(p)
            vs[p] = v
            if lo is not None:
                cs.append(v >= sym.rv(lo))
            if hi is not None:
                cs.append(v <= sym.rv(hi))
        if self.extra:
            cs += list(self.extra(vs))
        return cs


def prove_law(law, st, make_value, make_concrete, prop, timeout_ms=10000, tol=1e-9):
    """make_value(name, proxy) -> object handed to the harness while proving;
    make_concrete(name, float) -> object handed to the harness while replaying."""
    region = law.region()
    drv = PathDriver(region, timeout_ms=timeout_ms, max_paths=law.max_paths)
    drv.params = dict((p, sym.param(p, None)) for p, _, _ in law.params)

    def V(name):
        return make_value(name, drv.params[name])

    okey = "%s:%s" % (prop, law.name)
    try:
        paths = drv.explore(lambda: law.fn(V))
    except (Unsupported, Inconclusive) as e:
        st.ob("inconclusive", key=okey, note="%s: %s" % (law.name, e))
        st["solver_time"] += drv.solver_time
        st["queries"] += drv.queries
        return
    # vacuity guard: the region itself must be satisfiable and at least one path must exist
    s = z3.Solver()
    s.set("timeout", timeout_ms)
    for c in region:
        s.add(c)
    if str(s.check()) != "sat" or not paths:
        st.harness_error("law %s: empty region or no path" % law.name)
        return
    for i, (pc, kind, val) in enumerate(paths):
        pkey = "%s:path%d" % (okey, i)
        if kind == "exc":
            if law.expect_exc is not None and isinstance(val, law.expect_exc):
                st.ob("proved", key=pkey)
                continue
            if isinstance(val, law.allow_exc):
                st.ob("proved", key=pkey)
                continue
            goal = z3.BoolVal(False)
            what = "raised %s: %s" % (type(val).__name__, str(val)[:100])
        else:
            if law.expect_exc is not None:
                goal = z3.BoolVal(False)
                what = "returned %r where %s was required" % (val, law.expect_exc.__name__)
            elif isinstance(val, tuple) and len(val) == 3 and val[0] == "eq":
                goal = to_z3_eq(val[1], val[2])
                what = "lhs %r != rhs %r" % (val[1], val[2])
            elif isinstance(val, tuple) and len(val) == 2 and val[0] == "cond":
                goal = cond_z3(val[1])
                what = "condition %r is false" % (val[1],)
            else:
                raise ValueError("harness %s must return ('eq', a, b) or ('cond', c)" % law.name)
        s = z3.Solver()
        s.set("timeout", timeout_ms)
        for c in region + list(pc):
            s.add(c)
        s.add(z3.Not(goal))
        import time
        t = time.time()
        r = str(s.check())
        st["solver_time"] += time.time() - t
        st["queries"] += 1
        if r == "unsat":
            st.ob("proved", key=pkey)
        elif r == "sat":
            m = s.model()
            vals = {}
            for p, _, _ in law.params:
                v = m.eval(z3.Real(p), model_completion=True)
                try:
                    vals[p] = Fraction(v.numerator_as_long(), v.denominator_as_long())
                except Exception:
                    vals[p] = Fraction(str(v.approx(20)).rstrip("?"))
            rep = replay_law(law, vals, make_concrete, tol)
            if rep:
                st.ob("refuted", key=pkey)
                st.violation("law:%s" % law.name, "%s fails: %s at %s :: concrete replay: %s" % (
                    law.name, what, dict((k, str(v)) for k, v in vals.items()), rep),
                    {"kind": "law", "law": law.name, "values": dict((k, str(v)) for k, v in vals.items())})
            else:
                st.ob("inconclusive", key=pkey, note="%s: solver model %s did not reproduce with floats "
                      "(tolerance band / rounding)" % (law.name, dict((k, str(v)) for k, v in vals.items())))
        else:
            st.ob("inconclusive", key=pkey, note="%s: z3 unknown" % law.name)
    st["solver_time"] += drv.solver_time
    st["queries"] += drv.queries


def replay_law(law, vals, make_concrete, tol=1e-9):
    """Run the harness on concrete floats. Returns a description if the law fails, else None."""
    def V(name):
        return make_concrete(name, float(vals[name]))
    try:
        val = law.fn(V)
    except Exception as e:
        if law.expect_exc is not None and isinstance(e, law.expect_exc):
            return None
        if isinstance(e, law.allow_exc):
            return None
        return "raised %s: %s" % (type(e).__name__, str(e)[:120])
    if law.expect_exc is not None:
        return "returned %r, %s expected" % (val, law.expect_exc.__name__)
    if val[0] == "eq":
        if concrete_equal(val[1], val[2], tol):
            return None
        return "lhs=%r rhs=%r" % (val[1], val[2])
    return None if val[1] else "condition false"

"""E4: CrossHair front-end.  Harness functions (PEP316 contracts in docstrings) are written to scratch
modules outside /repo and /verif, `crosshair check --report_all` is run on each module in parallel, and
the report is parsed into one verdict per harness:

   confirmed      "Confirmed over all paths"      -> proved within the harness' bounds
   refuted        a counterexample call           -> replayed concretely by the caller
   inconclusive   "Not confirmed", "Unable to meet precondition", timeout, crash

Every harness function must be self-contained given the module preamble.
"""
import os
import re
import shutil
import subprocess
import sys
import tempfile
import time

from .common import VERIF

CROSSHAIR = os.path.join(VERIF, ".venv", "bin", "crosshair")


class Harness(object):
    def __init__(self, name, source, meta=None):
        self.name = name
        self.source = source.rstrip() + "\n"
        self.meta = meta or {}


def _run_module(args):
    path, timeout, wall = args
    env = dict(os.environ)
    env["PYTHONPATH"] = VERIF + os.pathsep + os.path.dirname(path) + os.pathsep + env.get("PYTHONPATH", "")
    env["PYTHONWARNINGS"] = "ignore"
    t = time.time()
    try:
        p = subprocess.run([CROSSHAIR, "check", "--report_all", "--per_condition_timeout", str(timeout),
                            "--per_path_timeout", str(max(2, timeout / 4.0)), path],
                           capture_output=True, text=True, timeout=wall, env=env)
        out = p.stdout + "\n" + p.stderr
    except subprocess.TimeoutExpired as e:
        out = (e.stdout or b"").decode() if isinstance(e.stdout, bytes) else (e.stdout or "")
        out += "\nWALL-TIMEOUT"
    return path, out, time.time() - t


def run(harnesses, preamble, per_condition_timeout=10, procs=16, per_module=None, keep=False):
    """Returns (dict name -> (verdict, detail), total crosshair cpu seconds)."""
    import multiprocessing as mp
    tmp = tempfile.mkdtemp(prefix="verif_xh_")
    results = {}
    try:
        hs = list(harnesses)
        if not hs:
            return {}, 0.0
        per_module = per_module or max(1, (len(hs) + procs * 2 - 1) // (procs * 2))
        nmods = (len(hs) + per_module - 1) // per_module
        modules = []
        for mi in range(nmods):
            chunk = hs[mi::nmods]       # round robin: expensive harness kinds are spread over the modules
            path = os.path.join(tmp, "h%04d.py" % mi)
            lines = preamble.rstrip().split("\n") + ["", ""]
            index = []
            for h in chunk:
                start = len(lines) + 1
                lines += h.source.split("\n") + [""]
                index.append((start, len(lines), h.name))
            with open(path, "w") as f:
                f.write("\n".join(lines))
            modules.append((path, index, chunk))
        wall = lambda n: per_condition_timeout * n * 1.5 + 60
        jobs = [(path, per_condition_timeout, wall(len(chunk))) for path, index, chunk in modules]
        ctx = mp.get_context("fork")
        with ctx.Pool(min(procs, len(jobs))) as pool:
            outs = pool.map(_run_module, jobs)
        cpu = 0.0
        for (path, index, chunk), (_, out, secs) in zip(modules, outs):
            cpu += secs
            seen = {}
            for line in out.split("\n"):
                m = re.match(r"^(.*?):(\d+): (info|error): (.*)$", line)
                if not m or os.path.abspath(m.group(1)) != os.path.abspath(path):
                    continue
                ln, level, msg = int(m.group(2)), m.group(3), m.group(4)
                name = None
                for start, end, nm in index:
                    if start <= ln < end:
                        name = nm
                if name is None:
                    continue
                if level == "error":
                    seen[name] = ("refuted", msg)
                elif name not in seen:
                    if msg.startswith("Confirmed over all paths"):
                        seen[name] = ("confirmed", msg)
                    else:
                        seen[name] = ("inconclusive", msg)
            for start, end, nm in index:
                if nm not in seen:
                    tail = out.strip().split("\n")[-1][:200] if out.strip() else "no output"
                    seen[nm] = ("inconclusive", "no verdict reported (%s)" % tail)
            results.update(seen)
        return results, cpu
    finally:
        if not keep:
            shutil.rmtree(tmp, ignore_errors=True)


def parse_call(msg):
    """'false when calling f(1, x=2) (which returns ..)' -> (name, args tuple, kwargs dict) or None."""
    m = re.search(r"when calling (\w+)\((.*?)\)(?: \(which|$)", msg)
    if not m:
        m = re.search(r"when calling (\w+)\((.*)\)", msg)
        if not m:
            return None
    name, argtext = m.group(1), m.group(2)
    try:
        args, kwargs = eval("_cap(%s)" % argtext, {"_cap": lambda *a, **k: (a, k), "inf": float("inf"),
                                                  "nan": float("nan")})
    except Exception:
        return None
    return name, args, kwargs


def call_harness(preamble, harness, args, kwargs):
    """Execute the harness function concretely (the replay). Returns (returned value | exception)."""
    ns = {}
    exec(compile(preamble + "\n" + harness.source, "<harness %s>" % harness.name, "exec"), ns)
    fn = ns[harness.name]
    try:
        return "ok", fn(*args, **kwargs)
    except Exception as e:
        return "exc", e

#!/bin/sh
# Build the overlay venv offline (idempotent). /venv has problog's deps; the overlay adds
# crosshair-tool, z3-solver, cvc5 from the offline wheelhouse and puts /repo on sys.path.
set -e
cd "$(dirname "$0")"
exec 9>.setup.lock
flock 9
if [ -x .venv/bin/python ] && .venv/bin/python -c "import z3, crosshair, problog" >/dev/null 2>&1; then
  exit 0
fi
rm -rf .venv
/venv/bin/python -m venv .venv
SP=$(.venv/bin/python -c "import sysconfig; print(sysconfig.get_paths()['purelib'])")
printf "import site; site.addsitedir('/venv/lib/python3.12/site-packages')\n/repo\n" > "$SP/_overlay.pth"
PIP_NO_INDEX=1 .venv/bin/pip install -q --no-index --find-links /opt/veriftools/wheels crosshair-tool z3-solver cvc5
.venv/bin/python -W ignore -c "import z3, crosshair, problog; print('overlay ok', z3.get_version_string())"

#!/bin/bash
# usage: tools/try_seeded.sh <seed-id> <worktree> <prop> [<extra props>...]
# Confirms a seeded change (tests pass with it, demo fails with it and passes without it) in the scratch
# worktree, stores it under /verif/seeded/<seed-id>/, then applies it to /repo, runs the checks, reverts.
id="$1"; wt="$2"; shift 2
set -u
out=/verif/seeded/$id
mkdir -p "$out"
cp "$wt/_seeded/patch.diff" "$wt/_seeded/demo.py" "$out/" || exit 2
cp "$wt/_seeded/meta.json" "$out/agent_meta.json" 2>/dev/null
cd "$wt" || exit 2
git checkout -q -- problog 2>/dev/null
git apply --check "$out/patch.diff" || { echo "PATCH DOES NOT APPLY to pinned tree"; exit 2; }
/venv/bin/python -W ignore _seeded/demo.py > /tmp/seed_demo_clean.txt 2>&1; rc_clean=$?
git apply "$out/patch.diff"
/venv/bin/python -W ignore _seeded/demo.py > /tmp/seed_demo_mut.txt 2>&1; rc_mut=$?
/venv/bin/python -m pytest -q -p no:cacheprovider --timeout=900 --continue-on-collection-errors > /tmp/seed_tests.txt 2>&1
tests=$(grep -E "passed|failed" /tmp/seed_tests.txt | tail -1)
echo "demo clean rc=$rc_clean mutated rc=$rc_mut tests: $tests"
# now against /repo with my checks
cd /repo
if ! git diff --quiet; then echo "/repo dirty, abort"; exit 2; fi
git apply "$out/patch.diff" || exit 2
res=""
for p in "$@"; do
  o=$(cd /verif && timeout 3000 ./check "$p" 2>&1)
  n=$(echo "$o" | grep -c "^VIOLATION")
  line=$(echo "$o" | grep "tier=" | tail -1)
  first=$(echo "$o" | grep -A1 "^VIOLATION" | head -2 | tail -1 | cut -c1-300)
  echo "CHECK $p violations=$n :: $line"
  echo "   $first"
  res="$res{\"check\":\"$p\",\"violations\":$n},"
done
git checkout -- .
git diff --quiet || echo "WARNING /repo dirty"
# restore evidence/replays produced on the mutated tree
cd /verif && git checkout -- evidence replays 2>/dev/null; git clean -fdq replays evidence 2>/dev/null
python3 - "$out" "$rc_clean" "$rc_mut" "$tests" "[${res%,}]" <<'PY'
import json, sys, os
out, rc_clean, rc_mut, tests, res = sys.argv[1:6]
meta = {}
try:
    meta = json.load(open(os.path.join(out, "agent_meta.json")))
except Exception:
    pass
meta.update({"confirmed": {"demo_rc_unchanged_tree": int(rc_clean), "demo_rc_with_change": int(rc_mut), "test_suite_with_change": tests},
             "what_i_ran": "tools/try_seeded.sh: demo on worktree without/with patch, full pytest with patch, then patch applied to /repo, quick checks run, reverted",
             "checks_quick": json.loads(res)})
json.dump(meta, open(os.path.join(out, "meta.json"), "w"), indent=1)
os.remove(os.path.join(out, "agent_meta.json")) if os.path.exists(os.path.join(out, "agent_meta.json")) else None
PY

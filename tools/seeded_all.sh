#!/bin/bash
# Re-run every kept seeded change on the current /repo HEAD: the patch must apply, its demonstration must FAIL with the
# change applied (the change still breaks the property on this tree), and the checks named in its meta.json
# ("checks_expected", or the property it breaks) are run; writes seeded/RESULTS.txt.  /repo is restored after each one.
cd /verif
out=seeded/RESULTS.txt
: > $out
for d in seeded/S*/; do
  id=$(basename $d)
  props=$(python3 -c "import json,sys;m=json.load(open('$d/meta.json'));print(' '.join(m.get('checks_expected') or [m['property']]))")
  (cd /repo && git diff --quiet && git apply /verif/$d/patch.diff) || { echo "$id: patch does not apply" | tee -a $out; continue; }
  mkdir -p /repo/_seeded && cp $d/demo.py /repo/_seeded/demo.py
  (cd /repo && timeout 600 /venv/bin/python -W ignore _seeded/demo.py >/dev/null 2>&1); drc=$?
  rm -rf /repo/_seeded
  for p in $props; do
    o=$(timeout 3000 ./check $p 2>&1); n=$(echo "$o" | grep -c "^VIOLATION")
    echo "$id demo_rc_with_change=$drc $p violations=$n $(echo "$o" | grep 'tier=' | tail -1 | sed 's/.*obligations/obligations/')" | tee -a $out
  done
  (cd /repo && git checkout -- . && rm -f resulttable)
  git checkout -- evidence replays 2>/dev/null; git clean -fdq replays evidence 2>/dev/null
done

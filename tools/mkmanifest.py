#!/usr/bin/env python3
"""Regenerate MANIFEST.json from tools/manifest_src.py (keeps it schema-valid)."""
import json, os, sys
here = os.path.dirname(os.path.abspath(__file__))
sys.path.insert(0, here)
import manifest_src as M

checks = []
for pid in sorted(M.CHECKS):
    c = M.CHECKS[pid]
    checks.append({
        "property_id": pid,
        "quick_cmd": "./check %s --tier quick" % pid,
        "thorough_cmd": "./check %s --tier thorough" % pid,
        "evidence_file": "/verif/evidence/%s.json" % pid,
        "replay_cmd_template": "./check %s --replay {path}" % pid,
        "engine": c["engine"],
        "level_claimed": {"category": c["category"], "text": c["text"], "design_ref": "DESIGN.md §4 " + pid},
        "level_note": c["note"],
        "technique": c["technique"],
    })
props = [json.loads(l)["id"] for l in open(os.path.join(here, "..", "properties.jsonl"))]
na = [{"property_id": p, "reason": M.NOT_APPLICABLE.get(p, "check not built yet")} for p in props if p not in M.CHECKS]
man = {
    "version": 1,
    "setup_cmd": "./setup.sh",
    "hooks": {"guard": "ML_KULEUVEN_PROBLOG_VERIF", "enable": "no source hooks: checks reach the code through public extension points (custom Semiring, engine subclass, module-global shadowing inside the check process)",
              "baseline_off_cmd": "cd /repo && /venv/bin/python -m pytest -ra -q -p no:cacheprovider --timeout=900 --continue-on-collection-errors",
              "source_commits": M.HOOK_COMMITS, "add_only": True},
    "engines": M.ENGINES,
    "checks": checks,
    "notes": M.NOTES,
    "not_applicable": na,
}
json.dump(man, open(os.path.join(here, "..", "MANIFEST.json"), "w"), indent=1)
try:
    import jsonschema
    jsonschema.validate(man, json.load(open("/root/.vp/MANIFEST.schema.json")))
    print("MANIFEST valid,", len(checks), "checks,", len(na), "not applicable")
except ImportError:
    print("written (jsonschema unavailable)")

#!/bin/bash
# usage: tools/seed1.sh <seed-dir-name> <prop> [<prop>...] : apply one kept seeded change to /repo, run quick checks, revert
cd /verif
d=seeded/$1; shift
(cd /repo && git diff --quiet && git apply /verif/$d/patch.diff) || { echo "patch does not apply / repo dirty"; exit 2; }
for p in "$@"; do
  o=$(timeout 3000 ./check $p 2>&1); n=$(echo "$o" | grep -c "^VIOLATION")
  echo "$p violations=$n $(echo "$o" | grep 'tier=' | tail -1 | sed 's/.*obligations/obligations/')"
  echo "$o" | grep -A1 "^VIOLATION" | grep what | head -3 | cut -c1-300
done
(cd /repo && git checkout -- .)
git checkout -- evidence replays 2>/dev/null; git clean -fdq replays evidence 2>/dev/null

#!/bin/sh
# run the repo's pinned test suite (guard off) and print the summary line
cd /repo && env -u ML_KULEUVEN_PROBLOG_VERIF /venv/bin/python -m pytest -ra -q -p no:cacheprovider --timeout=900 --continue-on-collection-errors > /tmp/pytest_out.txt 2>&1
grep -E "^[0-9]+ passed|passed|failed|error" /tmp/pytest_out.txt | tail -3

#!/bin/bash
# usage: tools/sweep.sh "<seeds>" [tier] [props...]   -- runs the claimed checks, prints one summary line each
seeds="$1"; tier="${2:-quick}"; shift 2
props="$@"
[ -z "$props" ] && props=$(python3 -c "import json;print(' '.join(c['property_id'] for c in json.load(open('MANIFEST.json'))['checks']))")
for s in $seeds; do for p in $props; do
  t0=$(date +%s)
  o=$(VERIF_SEED=$s timeout 7200 ./check $p --tier $tier 2>&1); rc=$?
  echo "seed=$s rc=$rc $(echo "$o" | grep "tier=" | tail -1) [$(( $(date +%s)-t0 ))s]"
  echo "$o" | grep -E "^VIOLATION|^HARNESS|Traceback" | head -3
  echo "$o" | grep -A1 "^VIOLATION" | grep "what" | head -2
done; done

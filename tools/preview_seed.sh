#!/bin/bash
# usage: tools/preview_seed.sh <worktree-with-change-applied> <prop> [<prop>...]
# Runs the quick checks against the problog package of a scratch worktree (PYTHONPATH precedes /repo) WITHOUT touching /repo.
# Only a preview while /repo is in use by a sweep: the recorded result of a seeded change comes from tools/try_seeded.sh / seeded_all.sh.
wt="$1"; shift
cd /verif
for p in "$@"; do
  o=$(PYTHONPATH="$wt" timeout 3000 ./check "$p" 2>&1); n=$(echo "$o" | grep -c "^VIOLATION")
  echo "$p violations=$n $(echo "$o" | grep 'tier=' | tail -1 | sed 's/.*obligations/obligations/')"
  echo "$o" | grep -A1 "^VIOLATION" | grep what | head -2 | cut -c1-260
  git checkout -- "evidence/$p.json" 2>/dev/null
done
git status --short replays | grep "^??" | awk '{print $2}' | xargs -r rm -rf

#!/bin/sh
# usage: tools/mutant.sh <file-in-repo> <sed-expr> <prop> [<prop>...]  -- applies a mutation, runs checks, always reverts
f="$1"; e="$2"; shift 2
cd /repo || exit 2
sed -i "$e" "$f"
if git diff --quiet; then echo "MUTATION DID NOT APPLY"; exit 2; fi
for p in "$@"; do
  n=$(cd /verif && timeout 900 ./check "$p" 2>&1 | grep -c "^VIOLATION")
  echo "mutant[$f :: $e] $p violations=$n"
done
git checkout -- "$f"
git diff --quiet || echo "WARNING repo dirty"

#!/bin/sh
# usage: tools/mutant.sh <file-in-repo> <python-expr: old|||new> <prop> [<prop>...]  -- applies a textual mutation, runs checks, always reverts
f="$1"; e="$2"; shift 2
cd /repo || exit 2
git diff --quiet || { echo "/repo has uncommitted changes - commit them first"; exit 2; }
python3 - "$f" "$e" <<'PY' || exit 2
import sys
f, e = sys.argv[1], sys.argv[2]
old, new = e.split("|||")
s = open(f).read()
if s.count(old) < 1:
    print("MUTATION DID NOT APPLY"); sys.exit(2)
open(f, "w").write(s.replace(old, new, 1))
PY
for p in "$@"; do
  out=$(cd /verif && timeout 1200 ./check "$p" 2>&1)
  n=$(echo "$out" | grep -c "^VIOLATION")
  echo "mutant[$f :: $e] $p violations=$n rc_line=$(echo "$out" | grep "tier=" | tail -1 | cut -c1-150)"
  echo "$out" | grep -A1 "^VIOLATION" | head -4
done
git checkout -- "$f"
git diff --quiet || echo "WARNING repo dirty"

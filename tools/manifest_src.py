HOOK_COMMITS = []
NOTES = ("Solver-based checking of the real code: z3 decides, per program skeleton / term shape, the "
         "property for all possible worlds, all parameter values and all leaf data within the stated "
         "bounds; structure (skeletons, shapes, histories, schedules) is enumerated. See DESIGN.md.")
ENGINES = [
    {"name": "E1 symsem", "path": "vlib/symsem.py + vlib/sym.py", "kind_free_text":
        "real inference pipeline executed with symbolic weights (SymReal proxies through the real "
        "SemiringProbability; z3 Bool semiring for the world dimension)",
     "serves_properties": ["C01"]},
    {"name": "E2 refsem", "path": "vlib/refsem.py", "kind_free_text":
        "independent reference distribution semantics as z3 terms", "serves_properties": ["C01"]},
]
TV = "translation_validation"
CHECKS = {
    "C01": dict(engine="E1 symsem + E2 refsem", category=TV,
                technique="symbolic-weight execution of the real pipeline + z3 (SAT over worlds, NRA polynomial identity over parameters) against an independent reference",
                text="Per program skeleton the real grounding/compilation/evaluation code is run with symbolic weights; z3 decides equality with the reference distribution semantics for all 2^n worlds and all parameter values in the open unit box. Skeletons are enumerated (corpus + seeded generator), so the claim is bounded by the skeleton set.",
                note="Trusted: reference semantics vlib/refsem.py (cross-checked by a z3 query per program), z3, floats-as-reals, tolerance constants as infinitesimals. Skeleton space is sampled, not symbolic."),
}
NOT_APPLICABLE = {}

HOOK_COMMITS = []
NOTES = ("Solver-based checking of the real code: z3 decides, per program skeleton / term shape, the "
         "property for all possible worlds, all parameter values and all leaf data within the stated "
         "bounds; structure (skeletons, shapes, histories, schedules) is enumerated. See DESIGN.md.")
ENGINES = [
    {"name": "E4 leaf", "path": "vlib/xh.py", "kind_free_text":
        "CrossHair (symbolic execution of Python with z3) on generated harness modules: shape-concrete, data-symbolic; verdicts parsed per condition, counterexamples replayed concretely",
     "serves_properties": ["C14", "C15", "C16", "C28", "C34"]},
    {"name": "E5 shadow", "path": "vlib/sym.py + vlib/leaf.py", "kind_free_text":
        "proxy values over z3 terms (reals, log values, ints, strings) driven through the real functions by a DFS path driver; builtins shadowed as module globals",
     "serves_properties": ["C12"]},
    {"name": "E1 symsem", "path": "vlib/symsem.py + vlib/sym.py", "kind_free_text":
        "real inference pipeline executed with symbolic weights (SymReal proxies through the real "
        "SemiringProbability; z3 Bool semiring for the world dimension)",
     "serves_properties": ["C01", "C02", "C03", "C04", "C05", "C06", "C07", "C08", "C25", "C26", "C29"]},
    {"name": "E2 refsem", "path": "vlib/refsem.py", "kind_free_text":
        "independent reference distribution semantics as z3 terms", "serves_properties": ["C01"]},
    {"name": "E3 tv", "path": "vlib/tv.py", "kind_free_text":
        "SAT translation validation of LogicFormula/LogicDAG/CNF/DDNNF/DIMACS artifacts",
     "serves_properties": ["C09", "C10", "C11"]},
]
TV = "translation_validation"
CHECKS = {
    "C01": dict(engine="E1 symsem + E2 refsem", category=TV,
                technique="symbolic-weight execution of the real pipeline + z3 (SAT over worlds, NRA polynomial identity over parameters) against an independent reference",
                text="Per program skeleton the real grounding/compilation/evaluation code is run with symbolic weights; z3 decides equality with the reference distribution semantics for all 2^n worlds and all parameter values in the open unit box. Skeletons are enumerated (corpus + seeded generator), so the claim is bounded by the skeleton set.",
                note="Trusted: reference semantics vlib/refsem.py (cross-checked by a z3 query per program), z3, floats-as-reals, tolerance constants as infinitesimals. Skeleton space is sampled, not symbolic."),
}
CHECKS["C09"] = dict(engine="E3 tv", category=TV,
    technique="SAT translation validation: SCC-unrolled least-fixpoint encoding of the real LogicFormula vs LogicDAG vs CNF, z3 over all atom assignments",
    text="Every ground program the real engine (and a synthetic cyclic-formula builder) produces is encoded from the real node tables; z3 proves for all atom assignments that break_cycles preserves every query/evidence node and that the CNF is exactly the completion (unique extension agreeing with the DAG), with constraints/weights/names carried over.",
    note="Bounded by the set of ground programs explored (corpus, seeded generator, graph family, synthetic cyclic formulas). Trusted: the encoder vlib/tv.py and z3.")
CHECKS["C10"] = dict(engine="E3 tv", category=TV,
    technique="SAT translation validation of each real (CNF, d-DNNF) pair: determinism, equivalence, label agreement by z3; decomposability/smoothness from the node table",
    text="Each d-DNNF returned by the real _compile/_load_nnf (dsharp) is checked node by node: decomposable and smooth syntactically, every OR node deterministic and the circuit equivalent to its CNF for all assignments by z3, labels/weights/constraints carried over.",
    note="Bounded by the set of CNFs explored. dsharp itself is trusted only through these validated outputs.")
RVR = "run-vs-run differential through E1: both runs execute the real pipeline with symbolic weights; z3 decides identity of the rational functions (NRA) and agreement in all worlds (SAT)"
CHECKS["C06"] = dict(engine="E1 symsem (diffcheck)", category=TV, technique=RVR + "; option vectors enumerated",
    text="Default options vs each option vector (all single toggles, all pairs, seeded vectors; evidence spellings) on the same skeleton: both real-code runs yield rational functions of the symbolic parameters and z3 proves them identical for all parameter values, plus agreement on every evidence world. propagate_weights runs the real add_atom weight propagation on symbolic weights.",
    note="Option vectors and skeletons are enumerated/sampled. Log-space vs normal space only anchored concretely (algebra in C12). Instances reported by one side only must be identically 0.")
CHECKS["C07"] = dict(engine="E1 symsem (diffcheck)", category=TV, technique=RVR + "; permutations seeded",
    text="Original vs permuted program text (statements, clauses, body literals with negated literals kept after their binders): z3 proves the two real-code results identical for all parameter values and all worlds.",
    note="Permutations are seeded samples per skeleton (4 quick / 40 thorough); skeletons enumerated.")
CHECKS["C08"] = dict(engine="E1 symsem (diffcheck)", category=TV, technique=RVR + "; call histories seeded",
    text="Fresh single-query groundings vs (a) all queries at once, (b) seeded orders of engine.ground/ground_evidence calls into ONE shared target formula (with repeated calls), (c) successive ground_all calls on ONE prepared database: z3 proves each query's rational function identical for all parameter values and worlds.",
    note="Histories are seeded samples (3 quick / 24 thorough per skeleton plus two fixed shapes). Calls that raise are outside the histories (an engine object is not reusable after it raised).")
CHECKS["C25"] = dict(engine="E1 symsem (diffcheck) + E3 tv", category=TV, technique=RVR + "; DIMACS text re-read and proved equivalent to the internal CNF by SAT",
    text="Original program vs to_prolog() export (LogicFormula and LogicDAG, with and without evidence propagation) re-parsed by the real parser: z3 proves the query functions identical. CNF.to_dimacs() output is parsed by an independent reader and proved equivalent (all assignments) to CNF._clauses + constraints, header counts equal.",
    note="Export options as the to_prolog docstring requires. Known findings are matched on the failing export itself: duplicate aux_N names; an evidence atom that is an AD head printed as a fact under propagate_evidence (causal test: deleting those fact lines restores agreement); AssertionError call site in extract_relevant.")
CHECKS["C26"] = dict(engine="E1 symsem", category=TV, technique="symbolic semiring registered in ProbLog's semiring registry so subquery/2,3 binds P to a z3 term; NRA identity with the top-level run",
    text="A deterministic wrapper rule calls subquery(G,P) / subquery(G,P,Ev); with the symbolic probability semiring registered as 'prob' the answer term carries P as a rational function, which z3 proves equal to the top-level (conditional) probability for all parameter values.",
    note="Skeletons enumerated; evidence lists are the skeleton's own evidence. 5-argument form not exercised.")
CHECKS["C29"] = dict(engine="E1 symsem (diffcheck)", category=TV, technique=RVR + "; extension histories seeded",
    text="Union prepared from scratch vs db.extend() + add_statement sequence (child, incl. a second-level extension) and base vs parent-after-extension (isolation), with interleaved queries/groundings on parent and partial child: z3 proves identity of every query function.",
    note="<= 4 added statements, seeded splits (3 quick / 20 thorough per skeleton). Interleaved calls that would raise on a partial program are tried on a scratch engine first.")
CHECKS["C03"] = dict(engine="E1 symsem (diffcheck)", category=TV, technique=RVR + "; schedules = seeded permutations of every batch of sibling evaluation messages, injected through init_message_stack",
    text="Default buffered engine vs the same engine with a FIFO that permutes each batch of sibling 'e' messages: the two results are rational functions of symbolic weights and z3 proves them identical, so two schedules differing in a single world are told apart. Accept/reject decisions and instance sets are compared too.",
    note="The schedule quantifier is a seeded sample (4 quick / 40 thorough per skeleton), not solver-decided. No repo hook: harness-side engine subclass.")
CHECKS["C04"] = dict(engine="E1 symsem (diffcheck)", category=TV, technique=RVR + "; configurations = unbuffered, rc_first, seeded RandomOrderQueue from engine.rst",
    text="Default engine vs StackBasedEngine(unbuffered=True), (unbuffered=True, rc_first=True) and the documented random e-message order: z3 proves identity of the query functions; the accept/reject decision is compared (two runs that both raise agree, as the property states the decision, not the error). Genuine disagreements of the unbuffered modes are recorded as known findings (matched by engine mode + exception type + raising call site, independent of the generator seed).",
    note="Random orders are seeded samples. Known findings suppress only the listed (mode, exception, call-site) triples; any value disagreement is still a violation.")
CHECKS["C02"] = dict(engine="E2 refsem (alternating fixpoint in z3) + E1", category=TV,
    technique="solver classification of each skeleton (z3 over the unrolled alternating-fixpoint WFM: is a queried atom undefined in some world?) + real run; must-answer programs get C01's obligations",
    text="must-answer iff the FULL ground dependency graph has no cycle through negation (then NegativeCycle must not be raised and C01's solver-decided obligations hold); must-reject iff z3 finds a legal world in which a query/evidence atom is undefined in the well-founded model (then a GroundingError must be raised, never numbers); everything else asserts nothing.",
    note="must-reject is deliberately narrower than the property's wording so that a correct tree is never flagged. Skeletons: hand corpus + seeded negative-loop family. One known finding, keyed by the engine call site observed in-process (negated goal served from the cache while still active), not by program.")
CHECKS["C05"] = dict(engine="E1 symsem (diffcheck)", category=TV, technique=RVR + "; semiring variants incl. SemiringSymbolic expression parsed back into z3 terms",
    text="ddnnf vs the default evaluatable choice; probability semiring vs NSP variant, a user-defined probability semiring built on the base-class defaults (and its NSP variant), and SemiringSymbolic whose output expression is parsed back and proved equal for all parameter values. Log-probability is anchored concretely at an interior point.",
    note="NOT covered here: SDD, SDDExplicit, ForwardSDD, ForwardBDD, BDD (PySDD not installed, is_available() False). Log-prob algebra for all values is C12.")
CHECKS["C11"] = dict(engine="E3 tv (vlib/builder.py)", category=TV,
    technique="real builder call sequences mirrored by an unsimplified spec graph; least-model encodings of both node tables compared by z3 (SAT) for all atom assignments after every call",
    text="Every call sequence (bounded-exhaustive: all sequences of <= 2 compound calls over two atoms with every operand choice under 7-11 option vectors, depth 3 in the thorough tier; plus seeded sequences up to length 60 over <= 12 atoms with mutable/cyclic disjunctions, names, groups, deterministic atoms) is run on the real LogicFormula; after each call z3 proves that every key returned so far, and every entry of the name table, denotes the function the calls describe, for all atom assignments.",
    note="Sequences are enumerated/seeded, not symbolic. Sequences never contain a cycle through negation. Trusted: vlib/tv.py encoder (shared by spec and implementation side), z3.")
CHECKS["C12"] = dict(engine="E5 shadow (vlib/sym.py proxies + vlib/leaf.py law prover)", category="other",
    technique="concolic execution of the real semiring methods on proxy values (builtin float and the math module shadowed as module globals of problog.evaluator); per feasible path z3 (NRA) decides the law for all values in [0,1]; SemiringSymbolic output parsed back and decided as a polynomial identity",
    text="~110 laws (commutative-semiring laws, identities, negate/normalize/ad_complement/to_evidence contracts for the probability and log-probability semirings; log-probability as the logarithmic image of probability operation by operation; documented base-class defaults on a user-defined semiring; value-component laws of the MPE semirings) are harnesses over the real methods; every path of every harness is decided by z3 for all inputs. ~3000 SemiringSymbolic expressions (depth <= 2 over a,b,c,0,1,0.5) are parsed and proved equal to the denoted rational function for all real a,b,c.",
    note="Floats are reals; exp/log/log1p exact inverse bijections (log values carried by their linear image); tolerance constants read as infinitesimals, so values inside a tolerance band are identified with its centre. IEEE rounding is outside the claim. A solver model that does not reproduce with concrete floats is reported inconclusive.")
CHECKS["C14"] = dict(engine="E4 leaf (CrossHair, vlib/xh.py + vlib/unify_ref.py)", category="other",
    technique="CrossHair symbolic execution (z3) of the real unify_value / =,\\= builtins / unify_call_head per term-shape pair with symbolic variable identities, postcondition = agreement with a reference Robinson unifier",
    text="Per ordered pair of term shapes (depth <= 2 over variables, anonymous variable, atoms, quoted atom, string, int, float, f/1, g/2, list cells) and entry point, CrossHair explores every path of the real code over the symbolic variable identities and either confirms over all paths that success <=> an mgu exists, the bindings are a unifier, most general up to renaming, never cyclic, \\= is the complement of = - or returns a concrete identity assignment that is replayed.",
    note="Shapes are enumerated (quick: fixed core of 64 pairs + seeded sample; thorough: all pairs with <= 4 variable leaves); identity domains are small (2-3 ids quick, up to 4 thorough). 'Not confirmed' counts as inconclusive. unify_call_return / answers of non-ground top-level queries are NOT covered (see DESIGN.md).")
CHECKS["C28"] = dict(engine="E4 leaf (CrossHair, vlib/xh.py)", category="other",
    technique="CrossHair symbolic execution (z3 strings/ints) of the real py2pl/pl2py and problog_export conversion wrappers per value shape; counterexamples replayed concretely",
    text="Per value shape (nested lists/tuples of length 0-3, depth <= 3) with symbolic int leaves and symbolic string leaves of length <= 3 over the full alphabet, CrossHair confirms over all paths that pl2py(py2pl(v)) equals v with equal types, and that a value returned by an exported function (-int/-str/-list) is read back unchanged as an input of the same type - or returns a concrete value that is replayed.",
    note="Shapes enumerated; strings <= 3 characters; floats only on concrete witnesses (decimal rounding in Constant is not encoded). Three known findings (keys: tuple as last element of a tuple; exported str with leading/trailing double quote; floats with more than 15 decimals).")
CHECKS["C34"] = dict(engine="E4 leaf (CrossHair, vlib/xh.py)", category="other",
    technique="CrossHair symbolic execution (z3) of the real OrderedSet / UHeap / BitVector against executable abstract models, one condition per operation-kind sequence with symbolic items, keys and indices",
    text="Operation-kind sequences are enumerated (OrderedSet and BitVector: all of length <= 2 plus a seeded sample of length 3; UHeap: push/pop/peek sequences of length 2-5 over three items); items (3-element domain), heap keys ([0,3]) and bit indices (block-boundary points 0,31,32,63,64; single operations over [0,70)) are symbolic. After every operation the real container must agree with its model (iteration order, reversed order, length, membership, popped element; min-key extraction and non-decreasing drain order; set contents, len, truth value).",
    note="The order of the result of OrderedSet '&' is not asserted (collections.abc iterates the right operand); only its contents. 'Not confirmed' conditions (some 4-argument BitVector pairs) are inconclusive. Items/indices are concretised per path by an if-chain, so the solver enumerates value combinations of the stated finite domains.")
CHECKS["C16"] = dict(engine="E4 leaf (CrossHair, vlib/xh.py + vlib/arith_ref.py)", category="other",
    technique="CrossHair symbolic execution (z3 integers/reals) of the real arithmetic table (through compute_function), is/2, the comparison builtins and the term-inspection builtins per function and call mode, against a reference of the semantics Yap and SWI share",
    text="Every entry of the arithmetic function table that has an agreed Prolog meaning is called with symbolic integer operands (|v| <= 10^6) and with dyadic floats n/8 (symbolic n), and compared - value and type - with an integer-arithmetic reference; errors must be ProbLog errors. Comparison builtins, is/2, between/3, succ/2, plus/3, length/2, arg/3, functor/3, =../2 and the type tests are driven in every supported call mode with symbolic numbers inside enumerated term shapes.",
    note="About 40% of the conditions end 'Not confirmed' within the quick budget (CrossHair does not exhaust float paths and 10^6-wide integer ranges for every operator) and are reported inconclusive: for those the check is bug-hunting only. Not asserted: rem, int/int with /, ** on ints, negative shift counts/exponents, mixed-type min/max, transcendental functions. atom_number/2 on concrete atoms only. Known finding: is_list/1 on partial lists (pinned by the repo's tests).")
CHECKS["C15"] = dict(engine="E4 leaf (CrossHair, vlib/xh.py + vlib/order_ref.py)", category="other",
    technique="CrossHair symbolic execution (z3) of the real struct_cmp, compare/3, @<, @=<, @>, @>= and sort/2 per ordered pair of term shapes with symbolic integer leaves, against a reference total order",
    text="Per ordered pair of term shapes (variables, integers, floats, atoms, quoted atoms, strings, f/1, f/2, g/2, nested, list cell) with symbolic integer leaves (|v| <= 120: negative and multi-digit) and floats k/2, the real struct_cmp in both argument orders, compare/3 in both modes and the four order builtins must agree with the reference standard order; agreement with a total order on all pairs yields totality, antisymmetry and transitivity. sort/2 on triples must be strictly ascending, duplicate-free and keep exactly the input's elements.",
    note="Shapes enumerated (quick: all leaf pairs with an integer + seeded sample of the rest). Not asserted: order between distinct variables, strings vs atoms/compounds. builtin float()/int() of a Constant are shimmed inside the CrossHair process (CrossHair cannot pass a symbolic value through __float__/__int__). 'Not confirmed' (int vs float pairs) is inconclusive.")
NOT_APPLICABLE = {"C30": "check file exists (props/c30.py) but its triage is unfinished: it reports violations on the unchanged tree that have not been classified, so the property is not claimed"}
